------------------------------- MODULE Cache -------------------------------
(***************************************************************************)
(* Property C13: inline caches are transparent.                            *)
(*                                                                         *)
(* CONTRACT.  The class table is rebuilt from the events of class          *)
(* creation (class / inherit / field / method); every result a property    *)
(* or invoke site produces - whether it came out of the inline cache       *)
(* (hit) or from the slow path - must be what a lookup of that name in the *)
(* receiver's CURRENT class gives.  Classes the program did not create     *)
(* (built-ins) are opaque: for them a (class, name) pair must always       *)
(* resolve to the same thing.                                              *)
(*                                                                         *)
(* AS-IS (design model, MC_Cache): sites remember (class ADDRESS, result); *)
(* classes can be freed and their address reused by a new class, and a     *)
(* module's cache can be replaced/grown (REPL).  TLC shows which histories *)
(* yield a stale hit.                                                      *)
(***************************************************************************)
EXTENDS Naturals, Sequences, TLC, FiniteSets

VARIABLES ctab,    \* class id -> [fn: field names, fi: field indices, mn: method names, mi: method ids]
          cext     \* opaque classes: <<class id, kind, name>> -> result

cachevars == <<ctab, cext>>

CacheInit == ctab = <<>> /\ cext = <<>>

RECURSIVE Find(_, _, _)
Find(names, name, i) == IF i = 0 THEN 0 ELSE IF names[i] = name THEN i ELSE Find(names, name, i - 1)
IdxOf(names, name) == Find(names, name, Len(names))

Empty == [fn |-> <<>>, fi |-> <<>>, mn |-> <<>>, mi |-> <<>>]

\* op_class: a new, empty class
NewClass(e) ==
  /\ e.ev = "class"
  /\ ctab' = (e.c :> Empty) @@ ctab
  /\ UNCHANGED cext

\* op_inherit: the subclass starts from the superclass's tables (the hook then re-emits them as field/method
\* events of the subclass, which must agree)
Inherit(e) ==
  /\ e.ev = "inherit"
  /\ e.c \in DOMAIN ctab
  /\ UNCHANGED cachevars

AddField(e) ==
  /\ e.ev = "field"
  /\ e.c \in DOMAIN ctab
  /\ LET t == ctab[e.c] i == IdxOf(t.fn, e.name) IN
       IF i # 0 THEN t.fi[i] = e.idx /\ UNCHANGED ctab          \* re-declaration keeps its index
       ELSE ctab' = [ctab EXCEPT ![e.c].fn = Append(@, e.name), ![e.c].fi = Append(@, e.idx)]
  /\ UNCHANGED cext

AddMethod(e) ==
  /\ e.ev = "method"
  /\ e.c \in DOMAIN ctab
  /\ LET t == ctab[e.c] i == IdxOf(t.mn, e.name) IN
       IF i # 0 THEN ctab' = [ctab EXCEPT ![e.c].mi[i] = e.mid]     \* an override replaces the inherited entry
       ELSE ctab' = [ctab EXCEPT ![e.c].mn = Append(@, e.name), ![e.c].mi = Append(@, e.mid)]
  /\ UNCHANGED cext

\* what the slow path must find
FieldOf(c, name) == LET i == IdxOf(ctab[c].fn, name) IN IF i = 0 THEN 0 - 1 ELSE ctab[c].fi[i]
MethodOf(c, name) == LET i == IdxOf(ctab[c].mn, name) IN IF i = 0 THEN 0 - 1 ELSE ctab[c].mi[i]

ProbeOK(e) ==
  IF e.c \in DOMAIN ctab THEN
    IF e.kind \in {"get", "set"} THEN e.idx = FieldOf(e.c, e.name) ELSE e.mid = MethodOf(e.c, e.name)
  ELSE LET key == <<e.c, e.kind \in {"get", "set"}, e.name>> IN
         key \in DOMAIN cext => cext[key] = (IF e.kind \in {"get", "set"} THEN e.idx ELSE e.mid)

Probe(e) ==
  /\ e.ev = "probe"
  /\ ProbeOK(e)
  /\ IF e.c \in DOMAIN ctab THEN UNCHANGED cext
     ELSE LET key == <<e.c, e.kind \in {"get", "set"}, e.name>> IN
            cext' = IF key \in DOMAIN cext THEN cext
                    ELSE (key :> (IF e.kind \in {"get", "set"} THEN e.idx ELSE e.mid)) @@ cext
  /\ UNCHANGED ctab

CacheAccept(e) == NewClass(e) \/ Inherit(e) \/ AddField(e) \/ AddMethod(e) \/ Probe(e)
=============================================================================
