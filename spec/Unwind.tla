------------------------------- MODULE Unwind -------------------------------
(* Call frames, exception handlers and the nested interpreter loops of natives, per fiber — the contract
   behind C04 ("an error reaches the nearest dynamically enclosing handler, a handler is gone on every
   way out of its try") and the part of C16 about recursion limits and errors crossing natives.

   Code: laythe_vm/src/fiber/mod.rs (push_frame / pop_frame, push/pop_exception_handler, stack_unwind,
   pause_unwind, finish_unwind, split), laythe_vm/src/vm/error.rs (stack_unwind), vm/hooks.rs (run_fun /
   run_method: a native calls back into the interpreter with ExecutionMode::CallingNativeCode(depth)),
   vm/ops.rs (op_push_handler, op_pop_handler, op_check_handler, op_finish_unwind, op_continue_unwind,
   call / call_closure / call_native with MAX_FRAME_SIZE).

   State of one fiber:
     fr   number of call frames
     hs   the handler stack: for each active handler the frame depth it was pushed in
     ns   the nested loops: for each native that is calling back, the frame depth at that moment
     st   "run" | "search" (an error looks for a handler) | "catch" (a handler's catch clauses are being
          tried, frames above it still present) | "stopped" (the search ran into the bottom of a nested loop:
          the native will return the error) | "pending" (a handler declined, the search goes on) | "dead"

   What the contract says:
     - frames are pushed one at a time and never beyond MaxFrames;
     - a handler is pushed in the current frame and popped in the frame that pushed it; no frame returns
       while one of its handlers is still active, and no frame at or below the depth of a nested loop is
       popped from inside that loop;
     - a search always takes the innermost handler, and only if it lies strictly above the frame that
       called the native of the innermost nested loop; otherwise the loop is left with the error
       ("stopped") or, outside any loop with no handler left, the error is unhandled;
     - finishing an unwind cuts the frames back to the handler's frame;
     - a nested loop ends normally only when the frames are back at its depth.                            *)
EXTENDS Naturals, Sequences, TLC

CONSTANT MaxFrames

Last(s) == s[Len(s)]
Front(s) == SubSeq(s, 1, Len(s) - 1)

VARIABLE fib          \* fiber id -> [fr, hs, ns, st]; fibers appear when first mentioned
uvars == <<fib>>

New == [fr |-> 0, hs |-> <<>>, ns |-> <<>>, st |-> "run"]
Get(f) == IF f \in DOMAIN fib THEN fib[f] ELSE New
Put(f, r) == fib' = [x \in DOMAIN fib \cup {f} |-> IF x = f THEN r ELSE fib[x]]

UInit == fib = <<>>

Bottom(s) == IF s.ns = <<>> THEN 0 ELSE Last(s.ns)

\* ---- guards (G*) and updates, separate so that a trace spec can test the guard of a recorded event.
\* (IF .. THEN TRUE ELSE ..) instead of a disjunction: inside an action TLC explores both disjuncts.
GPush(f, n) == LET s == Get(f) IN s.st = "run" /\ n = s.fr + 1 /\ n <= MaxFrames
FPush(f, n) == GPush(f, n) /\ Put(f, [Get(f) EXCEPT !.fr = n])

GPop(f, n) == LET s == Get(f) IN
  /\ s.st = "run" /\ s.fr >= 1 /\ n = s.fr - 1
  /\ (IF s.hs = <<>> THEN TRUE ELSE Last(s.hs) <= n)   \* no handler of the returning frame is left behind
  /\ (IF s.ns = <<>> THEN TRUE ELSE n >= Last(s.ns))   \* a nested loop does not return from its caller's frames
FPop(f, n) == GPop(f, n) /\ Put(f, [Get(f) EXCEPT !.fr = n])

GHPush(f, n) == LET s == Get(f) IN s.st = "run" /\ n = s.fr /\ n >= 1
HPush(f, n) == GHPush(f, n) /\ Put(f, [Get(f) EXCEPT !.hs = Append(@, n)])

GHPop(f) == LET s == Get(f) IN s.st = "run" /\ s.hs # <<>> /\ Last(s.hs) = s.fr
HPop(f) == GHPop(f) /\ Put(f, [Get(f) EXCEPT !.hs = Front(@)])

\* an error starts (or resumes) looking for a handler; b is the bottom frame the interpreter loop passes
GSearch(f, b) == LET s == Get(f) IN s.st \in {"run", "pending"} /\ b = Bottom(s)
Search(f, b) == GSearch(f, b) /\ Put(f, [Get(f) EXCEPT !.st = "search"])

GTo(f, n) == LET s == Get(f) IN
  s.st = "search" /\ s.hs # <<>> /\ n = Last(s.hs) /\ n > Bottom(s) /\ n <= s.fr
To(f, n) == GTo(f, n) /\ Put(f, [Get(f) EXCEPT !.st = "catch"])

GStop(f) == LET s == Get(f) IN s.st = "search" /\ s.ns # <<>> /\ (IF s.hs = <<>> THEN TRUE ELSE Last(s.hs) <= Last(s.ns))
Stop(f) == GStop(f) /\ Put(f, [Get(f) EXCEPT !.st = "stopped"])

GUnhandled(f) == LET s == Get(f) IN s.st = "search" /\ s.ns = <<>> /\ s.hs = <<>>
Unhandled(f) == GUnhandled(f) /\ Put(f, [Get(f) EXCEPT !.st = "dead"])

\* a catch clause was tried (whether it matched does not change the state)
GCheck(f) == Get(f).st = "catch"
Check(f) == GCheck(f) /\ UNCHANGED fib

\* no clause matched: the handler is dropped and the search goes on
GContinue(f) == LET s == Get(f) IN s.st = "catch" /\ s.hs # <<>>
Continue(f) == GContinue(f) /\ Put(f, [Get(f) EXCEPT !.hs = Front(@), !.st = "pending"])

\* a clause matched: the frames above the handler's frame are gone (the handler itself is popped by the
\* PopHandler that follows)
GFinish(f, n) == LET s == Get(f) IN s.st = "catch" /\ s.hs # <<>> /\ n = Last(s.hs)
Finish(f, n) == GFinish(f, n) /\ Put(f, [Get(f) EXCEPT !.fr = n, !.st = "run"])

\* a native calls back into the interpreter
\* ("pending": a catch clause that is not a class drops the handler, and the runtime builds the type error by
\* calling its class before the search goes on)
GEnter(f, d) == LET s == Get(f) IN s.st \in {"run", "pending"} /\ d = s.fr
Enter(f, d) == GEnter(f, d) /\ Put(f, [Get(f) EXCEPT !.ns = Append(@, d)])

\* ... and the loop it started ends: normally only with the frames back at its depth; with the error
\* after a stopped search (or straight away when the callee could not even be called)
GExit(f, n, r) == LET s == Get(f) IN
  /\ s.ns # <<>>
  /\ CASE r = "ok" -> s.st = "run" /\ n = Last(s.ns) /\ s.fr = n
       [] r = "err" -> s.st \in {"stopped", "run"}
       [] OTHER -> TRUE                                         \* exit(): the process is ending
Exit(f, n, r) == GExit(f, n, r) /\ Put(f, [Get(f) EXCEPT !.ns = Front(@), !.st = IF r = "exit" THEN "dead" ELSE "run"])

\* launch peels the frame just pushed off the parent and starts a fiber with it
GSplit(f, c) == LET s == Get(f) IN s.st = "run" /\ s.fr >= 2 /\ c \notin DOMAIN fib /\ c # f
             /\ (IF s.hs = <<>> THEN TRUE ELSE Last(s.hs) < s.fr)
Split(f, c) == GSplit(f, c) /\ fib' = [x \in DOMAIN fib \cup {f, c} |->
                                         IF x = c THEN [New EXCEPT !.fr = 1]
                                         ELSE IF x = f THEN [Get(f) EXCEPT !.fr = @ - 1] ELSE fib[x]]

---------------------------------------------------------------------------------------------------------
\* design-level exploration: one fiber, every interleaving of the actions within small bounds
F0 == 0
UNext == \/ \E n \in 1 .. MaxFrames : FPush(F0, n) \/ HPush(F0, n) \/ To(F0, n) \/ Finish(F0, n)
         \/ \E n \in 0 .. MaxFrames : FPop(F0, n) \/ Search(F0, n) \/ Enter(F0, n)
         \/ \E n \in 0 .. MaxFrames, r \in {"ok", "err"} : Exit(F0, n, r)
         \/ HPop(F0) \/ Stop(F0) \/ Unhandled(F0) \/ Continue(F0) \/ Check(F0)
USpec == UInit /\ [][UNext]_uvars

\* the rule the pinned tree had in Fiber::stack_unwind (a handler AT the bottom frame is taken too): with it
\* TLC finds a state that breaks CaughtInsideLoop, which is the defect repaired by dfdb3fe (MC_Unwind_old.cfg)
ToOld(f, n) == LET s == Get(f) IN
  /\ s.st = "search" /\ s.hs # <<>> /\ n = Last(s.hs) /\ n >= Bottom(s) /\ n <= s.fr
  /\ Put(f, [s EXCEPT !.st = "catch"])
USpecOld == UInit /\ [][UNext \/ \E n \in 1 .. MaxFrames : ToOld(F0, n)]_uvars

\* handlers nest with frames, nested loops nest with frames, and a handler that a search may take from
\* inside a loop lies above the loop's caller
HandlersNest == \A f \in DOMAIN fib : LET s == fib[f] IN
  /\ \A i \in 1 .. Len(s.hs) : s.hs[i] >= 1 /\ s.hs[i] <= s.fr /\ (i > 1 => s.hs[i - 1] <= s.hs[i])
  /\ \A i \in 1 .. Len(s.ns) : s.ns[i] <= s.fr /\ (i > 1 => s.ns[i - 1] <= s.ns[i])
  /\ s.fr <= MaxFrames
CaughtInsideLoop == \A f \in DOMAIN fib : LET s == fib[f] IN
  (s.st = "catch" /\ s.ns # <<>>) => Last(s.hs) > Last(s.ns)
\* a search is never stuck and never has a choice: exactly one of "take the innermost handler", "leave the nested loop
\* with the error" and "unhandled" is possible
SearchDecided == \A f \in DOMAIN fib : fib[f].st = "search" =>
  LET a == \E n \in 1 .. MaxFrames : GTo(f, n)
      b == GStop(f)
      c == GUnhandled(f)
  IN (a \/ b \/ c) /\ ~(a /\ b) /\ ~(a /\ c) /\ ~(b /\ c)
=============================================================================
