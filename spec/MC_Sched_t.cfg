SPECIFICATION Spec
CONSTANTS
  NF = 3
  Cap <- Cap3
  IsSync <- Sync3
  MaxOps = 4
  OpKinds <- AllOps
  FocusMode = FALSE
  WBad = "-"
  WEnd = "-"
VIEW View
INVARIANT Inv
INVARIANT Classify
CHECK_DEADLOCK FALSE
