SPECIFICATION Spec
CONSTANTS
  NF = 4
  Cap <- Cap2
  IsSync <- Sync2
  MaxOps = 3
  OpKinds <- AllOps
  FocusMode = TRUE
  WBad = "-"
  WEnd = "-"
VIEW View
INVARIANT Inv
ACTION_CONSTRAINT EmitFocus
CHECK_DEADLOCK FALSE
