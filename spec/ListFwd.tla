------------------------------ MODULE ListFwd ------------------------------
(* Lists grow by forwarding (laythe_core/src/object/list.rs grow, raw_shared_vector.rs mark_moved /
   relocated_vector): the old header becomes a forwarding pointer to a new allocation, and only SOME of the
   references to the list are rewritten to the new address (Fiber::scan_roots: the current fiber's stack and
   one level of containers).  Everything else keeps the old address and reaches the elements through the
   forwarding chain.  Design-level model of what equality, hashing and map lookup see (C10):

     cells    places that hold a reference to a list (locals, fields, elements, captures, map keys ...)
     ref[c]   the address the cell holds (possibly stale), 0 = the cell holds no list
     id[c]    ghost: which list the cell really refers to (the contract's immutable identity)
     fwd[a]   0 if the header at a is live, otherwise the address it forwards to
     keyH[k]  for the map entry k: the hash the key had when it was inserted;  keyC[k]: the cell used as key

   Eq / Hash are parameters of the model: "raw" (the pinned tree: raw header address), "fwd" (address at the end
   of the forwarding chain), "kind" (constant for all lists).  The repaired tree (fix 1517aba) uses Eq = fwd,
   Hash = kind.  TLC shows:  (raw, raw) breaks EqOK and LookupOK (defect D4);  (fwd, fwd) breaks LookupOK (the
   seeded change C10-m2);  (fwd, kind) satisfies both for every interleaving of growth, partial rewriting,
   aliasing and key insertion.                                                                          *)
EXTENDS Naturals, FiniteSets, TLC

CONSTANTS Cells,      \* set of cells
          Lists,      \* set of list identities
          MaxAddr,    \* addresses are 1 .. MaxAddr
          EqMode,     \* "raw" | "fwd"
          HashMode    \* "raw" | "fwd" | "kind"

Addr == 1 .. MaxAddr

VARIABLES ref, id, fwd, used, keys
lvars == <<ref, id, fwd, used, keys>>

\* the address at the end of the forwarding chain
RECURSIVE Resolve(_)
Resolve(a) == IF fwd[a] = 0 THEN a ELSE Resolve(fwd[a])

EqImpl(c, d) == IF EqMode = "raw" THEN ref[c] = ref[d] ELSE Resolve(ref[c]) = Resolve(ref[d])
HashImpl(c) == CASE HashMode = "raw" -> ref[c] [] HashMode = "fwd" -> Resolve(ref[c]) [] OTHER -> 0

LInit ==
  /\ ref = [c \in Cells |-> 0] /\ id = [c \in Cells |-> 0]
  /\ fwd = [a \in Addr |-> 0] /\ used = {}
  /\ keys = {}                                        \* map entries: records [c, h] (key cell, hash at insertion)

\* a new list is created and stored in an empty cell
NewList(c, l) ==
  /\ ref[c] = 0 /\ l \in Lists /\ l \notin {id[d] : d \in Cells}
  /\ \E a \in Addr \ used :
       /\ ref' = [ref EXCEPT ![c] = a] /\ id' = [id EXCEPT ![c] = l] /\ used' = used \cup {a}
  /\ UNCHANGED <<fwd, keys>>

\* a reference is copied into another empty cell (an alias)
Alias(c, d) ==
  /\ ref[c] # 0 /\ ref[d] = 0
  /\ ref' = [ref EXCEPT ![d] = ref[c]] /\ id' = [id EXCEPT ![d] = id[c]]
  /\ UNCHANGED <<fwd, used, keys>>

\* the list reached through cell c grows: a new allocation, the old end of the chain forwards to it, the cell
\* itself and an arbitrary subset of the other cells of the same list are rewritten (partial scan_roots)
Grow(c) ==
  /\ ref[c] # 0
  /\ \E a \in Addr \ used, S \in SUBSET {d \in Cells : id[d] = id[c]} :
       /\ fwd' = [fwd EXCEPT ![Resolve(ref[c])] = a]
       /\ used' = used \cup {a}
       /\ ref' = [d \in Cells |-> IF d = c \/ d \in S THEN a ELSE ref[d]]
  /\ UNCHANGED <<id, keys>>

\* the list in cell c is used as a map key: its hash is taken now
Insert(c) ==
  /\ ref[c] # 0 /\ ~\E k \in keys : id[k.c] = id[c]
  /\ keys' = keys \cup {[c |-> c, h |-> HashImpl(c)]}
  /\ UNCHANGED <<ref, id, fwd, used>>

LNext == \/ \E c \in Cells, l \in Lists : NewList(c, l)
         \/ \E c, d \in Cells : Alias(c, d)
         \/ \E c \in Cells : Grow(c) \/ Insert(c)
LSpec == LInit /\ [][LNext]_lvars

\* ---- the contract (C10): identity is the ghost id, whatever happened to the addresses
Holders == {c \in Cells : ref[c] # 0}
EqOK == \A c, d \in Holders : EqImpl(c, d) <=> (id[c] = id[d])
\* a lookup with any alias of the key finds the entry: same bucket (hash) and equal
LookupOK == \A k \in keys, c \in Holders : id[c] = id[k.c] => (HashImpl(c) = k.h /\ EqImpl(c, k.c))
=============================================================================
