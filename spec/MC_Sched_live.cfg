SPECIFICATION FairSpec
CONSTANTS
  NF = 3
  Cap <- Cap2
  IsSync <- Sync2
  MaxOps = 3
  OpKinds <- AllOps
  FocusMode = FALSE
  WBad = "-"
  WEnd = "-"

INVARIANT Inv
PROPERTY Terminates

CHECK_DEADLOCK FALSE
