SPECIFICATION Spec
CONSTANTS
  NF = 3
  Cap <- Cap2
  IsSync <- Sync2
  MaxOps = 3
  OpKinds <- AllOps
  FocusMode = FALSE
  WBad = "-"
  WEnd = "-"

INVARIANT Inv
PROPERTY HistoryGrows

CHECK_DEADLOCK FALSE
