SPECIFICATION TSpec
CONSTANTS MaxFrames = 255
POSTCONDITION AllConsumed
CHECK_DEADLOCK FALSE
