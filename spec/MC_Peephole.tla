---------------------------- MODULE MC_Peephole ----------------------------
(***************************************************************************)
(* Judges (input, output) pairs recorded from the REAL optimiser           *)
(* (hook laythe_vm::verif::peephole / the compiler's per-function log):    *)
(* the model optimiser runs on every recorded input, each of its steps     *)
(* must preserve the meaning of the window (StepInv), and at the end       *)
(*   - the real output must be Equiv to the input and carry the right      *)
(*     lines                                  (contract  -> VIOLATION)     *)
(*   - the real output must equal the model's (as-is     -> model_drift)   *)
(***************************************************************************)
EXTENDS Peephole, Json, IOUtils

Pairs == ndJsonDeserialize(IOEnv.PAIRS)

VARIABLE i

Init == /\ i \in 1 .. Len(Pairs)
        /\ win = [code |-> Pairs[i].in, lines |-> Pairs[i].inl]
        /\ r = 0 /\ out = <<>> /\ outl = <<>> /\ oflow = FALSE

Next == OptStep /\ UNCHANGED i

Spec == Init /\ [][Next]_<<pvars, i>>

Report(kind) == PrintT("PAIR " \o ToJson([i |-> i, id |-> Pairs[i].id, kind |-> kind]))

\* never fails: reports
Judge ==
  /\ (~StepInv) => Report("model-step-not-equiv")
  /\ Done =>
       /\ (~oflow /\ ~Equiv(win.code, Pairs[i].out)) => Report("not-equiv")
       /\ (~oflow /\ ~LinesOK(win.code, win.lines, Pairs[i].out, Pairs[i].outl)) => Report("lines")
       /\ (oflow) => Report("outside-quantifier")
       /\ (~oflow /\ (out # Pairs[i].out \/ outl # Pairs[i].outl)) => Report("drift")
=============================================================================
