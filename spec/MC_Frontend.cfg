SPECIFICATION FSpec
CONSTRAINT Bound
INVARIANTS NothingExecutedWhenRejected RejectedIffDiagnosed
PROPERTIES DefsOnlyGrowInSession RejectKeepsDefs
CHECK_DEADLOCK FALSE
