--------------------------------- MODULE Gc ---------------------------------
(***************************************************************************)
(* CONTRACT of the memory manager as seen through its events (properties   *)
(* C20, C09 and the bookkeeping part of C05).                              *)
(*                                                                         *)
(*   alloc(a, sz, heap)        a block is handed to the collector          *)
(*   intern(hit, a, s)         a string with content s was requested       *)
(*   gc(n, full, freed, evicted, bytes, next)   one collection             *)
(*                                                                         *)
(*  S1/S8  a block is freed at most once, and only if it was allocated     *)
(*  S3     a nursery collection frees only nursery objects (boxed heap     *)
(*         blocks are always swept)                                        *)
(*  S4     the intern table maps every content to ONE live string: a hit   *)
(*         returns it, a miss happens only when the table has no entry,    *)
(*         an entry is dropped no later than the collection that frees its *)
(*         string (no entry ever outlives its string)                      *)
(*  S5     after EVERY collection the byte count the collector reports is  *)
(*         the sum of the sizes of the blocks it still holds, and the next *)
(*         threshold is twice that                                         *)
(*                                                                         *)
(* Block ids are consecutive naturals (renumbered per run by the driver),  *)
(* so the held blocks are kept in sequences indexed by id + 1.             *)
(***************************************************************************)
EXTENDS Integers, Sequences, TLC, FiniteSets

VARIABLES szs,      \* id+1 -> size of the block while it is held, 0 otherwise
          gens,     \* id+1 -> 0 not an object-heap block, 1 nursery, 2 old
          total,    \* sum of held sizes
          table,    \* content -> id   (the intern table)
          sid,      \* id -> content   (strings known to the table)
          base      \* bytes held in blocks allocated before recording started: 0 when the recording covers the
                    \* whole life of the collector, otherwise unknown (-1) until the first collection reports

gcvars == <<szs, gens, total, table, sid, base>>

GcInit == szs = <<>> /\ gens = <<>> /\ total = 0 /\ table = <<>> /\ sid = <<>> /\ base = 0

Held(a) == a >= 0 /\ a < Len(szs) /\ szs[a + 1] > 0
ToSet(s) == {s[i] : i \in 1 .. Len(s)}

\* --- guards (state predicates) and updates are separate so that the trace spec needs no ENABLED ---
AllocOk(e) == e.a = Len(szs) /\ e.sz > 0                         \* ids are handed out in order, never reused
AllocDo(e) ==
  /\ szs' = Append(szs, e.sz)
  /\ gens' = Append(gens, IF e.heap = "obj" THEN 1 ELSE 0)
  /\ total' = total + e.sz
  /\ UNCHANGED <<table, sid, base>>

InternOk(e) ==
  IF e.hit THEN (IF e.s \in DOMAIN table THEN table[e.s] = e.a /\ (Held(e.a) \/ e.a < 0)   \* negative ids: blocks from before the recording
                 ELSE base # 0 /\ ~Held(e.a))                  \* interned before recording started: learnt now
  ELSE Held(e.a) /\ e.s \notin DOMAIN table
InternDo(e) ==
  /\ IF e.s \in DOMAIN table THEN UNCHANGED <<table, sid>>
     ELSE table' = (e.s :> e.a) @@ table /\ sid' = (e.a :> e.s) @@ sid
  /\ UNCHANGED <<szs, gens, total, base>>

RECURSIVE SumSz(_, _)
SumSz(ids, i) == IF i > Len(ids) THEN 0 ELSE szs[ids[i] + 1] + SumSz(ids, i + 1)

CollectOk(e) ==
  LET F == ToSet(e.freed) E == ToSet(e.evicted) IN
  /\ Cardinality(F) = Len(e.freed)                               \* S1
  /\ \A a \in F : Held(a)                                        \* S1 / S8
  /\ e.full \/ \A a \in F : gens[a + 1] \in {0, 1}               \* S3
  /\ \A a \in F : a \in DOMAIN sid => a \in E \/ sid[a] \notin DOMAIN table \/ table[sid[a]] # a     \* S4
  /\ (IF base < 0 THEN e.bytes >= total - SumSz(e.freed, 1) ELSE e.bytes = base + total - SumSz(e.freed, 1))   \* S5
  /\ e.next = 2 * e.bytes
CollectDo(e) ==
  LET F == ToSet(e.freed) E == ToSet(e.evicted) IN
  /\ szs' = [i \in 1 .. Len(szs) |-> IF (i - 1) \in F THEN 0 ELSE szs[i]]
  /\ gens' = [i \in 1 .. Len(gens) |-> IF gens[i] = 1 THEN 2 ELSE gens[i]]
  /\ total' = total - SumSz(e.freed, 1)
  /\ base' = base      \* a recording that started late never learns the baseline exactly (earlier blocks may be freed unseen)
  /\ table' = [s \in {c \in DOMAIN table : table[c] \notin E} |-> table[s]]
  /\ sid' = [a \in DOMAIN sid \ (E \cup F) |-> sid[a]]

GcOk(e) == CASE e.ev = "alloc" -> AllocOk(e) [] e.ev = "intern" -> InternOk(e) [] e.ev = "gc" -> CollectOk(e) [] OTHER -> FALSE
GcDo(e) == CASE e.ev = "alloc" -> AllocDo(e) [] e.ev = "intern" -> InternDo(e) [] e.ev = "gc" -> CollectDo(e)

\* why an event is refused (for the report)
Why(e) ==
  CASE e.ev = "alloc" -> "block ids out of order or empty block"
    [] e.ev = "intern" /\ ~e.hit /\ ~Held(e.a) -> "interned string is not a held block"
    [] e.ev = "intern" /\ e.hit /\ e.s \in DOMAIN table /\ table[e.s] # e.a -> "hit returns a string the table does not hold for this content"
    [] e.ev = "intern" /\ e.hit /\ e.s \in DOMAIN table /\ ~Held(e.a) /\ e.a >= 0 -> "hit returns a string that was freed"
    [] e.ev = "intern" /\ ~e.hit /\ e.s \in DOMAIN table -> "miss although the table holds a string with this content"
    [] e.ev = "gc" /\ ~(\A a \in ToSet(e.freed) : Held(a)) -> "frees a block that is not held (double free)"
    [] e.ev = "gc" /\ ~(e.full \/ \A a \in ToSet(e.freed) : gens[a + 1] \in {0, 1}) -> "nursery collection frees an old object"
    [] e.ev = "gc" /\ (\E a \in ToSet(e.freed) : a \in DOMAIN sid /\ a \notin ToSet(e.evicted) /\ sid[a] \in DOMAIN table /\ table[sid[a]] = a)
         -> "intern entry outlives its string"
    [] e.ev = "gc" /\ base >= 0 /\ e.bytes # base + total - SumSz(e.freed, 1) -> "reported bytes differ from the sum of held block sizes"
    [] e.ev = "gc" /\ e.next # 2 * e.bytes -> "next threshold is not twice the live size"
    [] OTHER -> "guard"
=============================================================================
