------------------------------ MODULE Bytecode ------------------------------
(***************************************************************************)
(* Property C06: emitted bytecode respects the stack contract the          *)
(* unchecked VM relies on.                                                 *)
(*                                                                         *)
(* TLC is used as a bytecode verifier.  The input is the decoded code of   *)
(* every function the real compiler emitted (hook compile_dump; decoded    *)
(* with the independent opcode table spec/opcodes.json).  For each         *)
(* function the abstract machine below explores (pc, depth, handler stack) *)
(* over ALL control-flow successors - both branches of every conditional,  *)
(* the catch entry of every handler - whether or not any test executes     *)
(* them.  The per-instruction stack behaviour is written from the VM's     *)
(* dispatch code (vm/ops.rs), not from the compiler's stack_effect table.  *)
(*                                                                         *)
(* depth counts the frame's slots: slot 0 is the callee/self, slots        *)
(* 1..arity the parameters, so execution starts at depth 1 + arity.        *)
(***************************************************************************)
EXTENDS Naturals, Sequences, TLC, FiniteSets, Json, IOUtils

Funs == ndJsonDeserialize(IOEnv.FUNS)
\* one record per function:
\*   [id, arity, max_slots, captures, nconsts, props, invokes, code |-> <<ins...>>, starts |-> pc -> index + 1 (0 = not a start)]
\*   ins = [pc, op, a, b, slot, len, caps, ck]   ck = kind of the constant an operand names ("fun", "str", "list", "num", ...)

VARIABLES fi,     \* function under verification
          pc,     \* byte offset of the next instruction
          depth,  \* frame slots in use
          hs,     \* handler stack: sequence of [target, rec] (catch entry, recorded depth)
          bad,    \* "" or the first contract breach on this path
          exc     \* TRUE iff this state was entered through an exceptional edge (catch entry)

vars == <<fi, pc, depth, hs, bad, exc>>

F == Funs[fi]
Base == 1 + F.arity                        \* callee slot + parameters
Cap == 1 + F.arity + F.max_slots           \* what push_frame / Fiber::new reserve
CodeLen == F.codelen

IsStart(p) == p >= 0 /\ p < CodeLen /\ F.starts[p + 1] > 0
InsAt(p) == F.code[F.starts[p + 1]]

Init == /\ fi \in 1 .. Len(Funs)
        /\ pc = 0 /\ depth = 1 + Funs[fi].arity /\ hs = <<>> /\ bad = "" /\ exc = FALSE

\* -------- per instruction: values needed on the stack, values popped, values pushed ----------
Needs(i) ==
  CASE i.op \in {"Negate", "Not", "BufferedChannel", "Receive", "IterNext", "IterCurrent", "Drop", "Dup", "SetModSym",
                 "SetBox", "SetLocal", "SetCapture", "GetPropByName", "GetProp", "JumpIfFalse", "And", "Or", "CheckHandler",
                 "Raise", "Return", "Field"} -> 1
    [] i.op \in {"Add", "Subtract", "Multiply", "Divide", "Equal", "NotEqual", "Greater", "GreaterEqual", "Less", "LessEqual",
                 "Send", "FillBox", "SetPropByName", "SetProp", "Method", "StaticMethod", "Inherit", "GetSuper"} -> 2
    [] i.op \in {"List", "Tuple", "Interpolate", "DropN"} -> i.a
    [] i.op = "Map" -> 2 * i.a
    [] i.op \in {"Launch", "Call"} -> i.a + 1
    [] i.op = "Invoke" -> i.b + 1
    [] i.op = "SuperInvoke" -> i.b + 2
    [] OTHER -> 0

\* net change on the fall-through successor
Delta(i) ==
  CASE i.op \in {"Constant", "ConstantLong", "Nil", "True", "False", "Channel", "Dup", "Import", "ImportSym", "LoadGlobal",
                 "GetModSym", "EmptyBox", "GetBox", "GetLocal", "GetCapture", "GetError", "Closure", "Class"} -> 1
    [] i.op \in {"Add", "Subtract", "Multiply", "Divide", "Equal", "NotEqual", "Greater", "GreaterEqual", "Less", "LessEqual",
                 "Send", "Drop", "FillBox", "SetPropByName", "SetProp", "JumpIfFalse", "And", "Or", "CheckHandler",
                 "Method", "StaticMethod", "GetSuper", "Raise", "Return"} -> 0 - 1
    [] i.op \in {"List", "Tuple", "Interpolate"} -> 1 - i.a
    [] i.op = "Map" -> 1 - 2 * i.a
    [] i.op = "DropN" -> 0 - i.a
    [] i.op = "Launch" -> 0 - (i.a + 1)
    [] i.op = "Call" -> 0 - i.a
    [] i.op = "Invoke" -> 0 - i.b
    [] i.op = "SuperInvoke" -> 0 - (i.b + 1)
    [] OTHER -> 0

\* -------- operand checks ----------
CapOK(c) == IF c >= 1000 THEN c - 1000 < F.captures ELSE c < depth

OperandBreach(i) ==
  CASE i.op \in {"Constant", "ConstantLong"} -> IF i.a < F.nconsts THEN "" ELSE "constant index out of range"
    [] i.op \in {"GetLocal", "SetLocal", "GetBox", "SetBox", "Box"} ->
         IF i.a < depth THEN "" ELSE "local slot above the live stack"
    [] i.op \in {"GetCapture", "SetCapture"} -> IF i.a < F.captures THEN "" ELSE "capture index out of range"
    [] i.op \in {"GetPropByName", "SetPropByName"} ->
         IF i.a >= F.nconsts \/ i.ck # "str" THEN "name operand is not a string constant"
         ELSE IF i.slot >= 0 /\ i.slot < F.props THEN "" ELSE "property cache slot out of range"
    [] i.op \in {"Invoke", "SuperInvoke"} ->
         IF i.a >= F.nconsts \/ i.ck # "str" THEN "name operand is not a string constant"
         ELSE IF i.slot >= 0 /\ i.slot < F.invokes THEN "" ELSE "invoke cache slot out of range"
    [] i.op \in {"LoadGlobal", "GetSuper", "Method", "Field", "StaticMethod", "Class", "Export", "IterNext", "IterCurrent"} ->
         IF i.a < F.nconsts /\ i.ck = "str" THEN "" ELSE "name operand is not a string constant"
    [] i.op \in {"DeclareModSym"} -> IF i.a < F.nconsts /\ i.ck = "str" THEN "" ELSE "name operand is not a string constant"
    [] i.op \in {"Import", "ImportSym"} -> IF i.a < F.nconsts /\ i.ck = "list" THEN "" ELSE "import path operand is not a list constant"
    [] i.op = "Closure" ->
         IF i.a >= F.nconsts \/ i.ck # "fun" THEN "closure operand is not a function constant"
         ELSE IF \A k \in 1 .. Len(i.caps) : CapOK(i.caps[k]) THEN "" ELSE "capture operand out of range"
    [] OTHER -> ""

Target(i, off) == i.pc + i.len + off      \* jumps are relative to the end of the instruction

\* first breach of the contract at this instruction in this abstract state, "" if none
Breach(i) ==
  IF depth - Needs(i) < Base THEN "stack drops below the frame's parameters"
  ELSE IF OperandBreach(i) # "" THEN OperandBreach(i)
  ELSE IF depth + Delta(i) > Cap \/ depth > Cap THEN "stack exceeds the capacity the function reserves"
  ELSE IF i.op \in {"JumpIfFalse", "Jump", "And", "Or", "CheckHandler"} /\ ~IsStart(Target(i, i.a))
       THEN "jump does not land on an instruction boundary"
  ELSE IF i.op = "Loop" /\ ~IsStart(i.pc + i.len - i.a) THEN "loop does not land on an instruction boundary"
  ELSE IF i.op = "PushHandler" /\ ~IsStart(Target(i, i.b)) THEN "handler does not land on an instruction boundary"
  ELSE IF i.op = "PushHandler" /\ i.a # depth THEN "handler records a depth different from the live depth"
  ELSE IF i.op = "PushHandler" /\ Len(hs) >= 40 THEN "handler stack grows without bound (a path leaves a try without deactivating its handler)"
  ELSE IF i.op \in {"PopHandler", "ContinueUnwind", "FinishUnwind"} /\ hs = <<>> THEN "handler popped with no handler active"
  ELSE IF i.op = "Return" /\ hs # <<>> THEN "return with an exception handler still active"
  ELSE IF i.op \notin {"Return", "Raise", "Jump", "Loop", "ContinueUnwind"} /\ ~IsStart(i.pc + i.len) /\ i.pc + i.len # CodeLen
       THEN "falls into the middle of an instruction"
  ELSE IF i.op \notin {"Return", "Raise", "Jump", "Loop", "ContinueUnwind"} /\ i.pc + i.len = CodeLen
       THEN "execution runs off the end of the function"
  ELSE ""

Go(p, d, h) == pc' = p /\ depth' = d /\ hs' = h /\ exc' = FALSE /\ UNCHANGED <<fi, bad>>
GoExc(p, d, h) == pc' = p /\ depth' = d /\ hs' = h /\ exc' = TRUE /\ UNCHANGED <<fi, bad>>

Step ==
  /\ bad = ""
  /\ IsStart(pc)
  /\ LET i == InsAt(pc)
         nxt == i.pc + i.len
         d == depth + Delta(i)
     IN IF Breach(i) # "" THEN bad' = Breach(i) /\ UNCHANGED <<fi, pc, depth, hs, exc>>
        ELSE CASE i.op \in {"Return", "Raise"} -> FALSE                       \* leaves the function
               [] i.op = "Jump" -> Go(Target(i, i.a), d, hs)
               [] i.op = "Loop" -> Go(i.pc + i.len - i.a, d, hs)
               [] i.op \in {"JumpIfFalse", "CheckHandler"} -> Go(nxt, d, hs) \/ Go(Target(i, i.a), d, hs)
               [] i.op \in {"And", "Or"} -> Go(nxt, d, hs) \/ Go(Target(i, i.a), depth, hs)   \* the operand stays on a jump
               [] i.op = "PushHandler" ->
                    \* normal successor with the handler active; and the catch entry, entered with the
                    \* stack cut back to the RECORDED depth (Fiber::stack_unwind) and the handler still on
                    \/ Go(nxt, d, Append(hs, [target |-> Target(i, i.b), rec |-> i.a]))
                    \/ GoExc(Target(i, i.b), i.a, Append(hs, [target |-> Target(i, i.b), rec |-> i.a]))
               [] i.op = "PopHandler" -> Go(nxt, d, SubSeq(hs, 1, Len(hs) - 1))
               [] i.op = "ContinueUnwind" ->
                    \* pops this handler and re-raises: control goes to the enclosing handler, if any
                    IF Len(hs) >= 2 THEN GoExc(hs[Len(hs) - 1].target, hs[Len(hs) - 1].rec, SubSeq(hs, 1, Len(hs) - 1))
                    ELSE FALSE
               [] OTHER -> Go(nxt, d, hs)

Spec == Init /\ [][Step]_vars

\* Every reachable abstract state is printed (one line per distinct state); the driver checks that each pc
\* of each function was reached with ONE depth and ONE handler-stack height (join consistency), and reports
\* the breaches.  The invariant itself never fails.
Show == PrintT("ST " \o ToJson([f |-> fi, pc |-> pc, d |-> depth, h |-> Len(hs), bad |-> bad, x |-> exc]))
=============================================================================
