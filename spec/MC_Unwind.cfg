SPECIFICATION USpec
CONSTANTS MaxFrames = 4
CONSTRAINT Bound
INVARIANTS HandlersNest CaughtInsideLoop
CHECK_DEADLOCK FALSE
