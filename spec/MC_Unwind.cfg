SPECIFICATION USpec
CONSTANTS MaxFrames = 4
CONSTRAINT Bound
INVARIANTS HandlersNest CaughtInsideLoop SearchDecided
CHECK_DEADLOCK FALSE
