--------------------------- MODULE Trace_Frontend ---------------------------
(* Trace validation of front end passes recorded from the VM (tools/c_front.py) against Frontend.tla.
   One record per observed step:  start(session) / submit / diag / reject(status) / accept / exec(defs) /
   finish(status) / probe(visible) / fail(how).  Total: a refused step is reported and the rest of that
   case skipped.  A pass that ended in a host failure is recorded as "fail", which no action matches. *)
EXTENDS Frontend, Json, IOUtils

Rec == ndJsonDeserialize(IOEnv.TRACE)

VARIABLES l, skip
tvars == <<fvars, l, skip>>

TInit == FInit /\ l = 1 /\ skip = FALSE

ToSet(s) == {s[i] : i \in 1 .. Len(s)}

Step(e) ==
  CASE e.ev = "submit" -> Submit
    [] e.ev = "diag" -> Diagnose
    [] e.ev = "reject" -> Reject(e.status)
    [] e.ev = "accept" -> Accept
    [] e.ev = "exec" -> Execute(ToSet(e.names))
    [] e.ev = "finish" -> Finish(e.status)
    [] e.ev = "probe" -> Probe(ToSet(e.names))
    [] OTHER -> FALSE

TNext ==
  /\ l <= Len(Rec)
  /\ l' = l + 1
  /\ LET e == Rec[l] IN
       \* a new case begins whatever state the previous one was left in (it may have been refused half way)
       IF e.ev = "start" THEN /\ phase' = "idle" /\ diags' = 0 /\ executed' = FALSE /\ defs' = {} /\ session' = e.session
                              /\ skip' = FALSE
       ELSE IF skip THEN UNCHANGED <<fvars, skip>>
       ELSE IF ENABLED Step(e) THEN Step(e) /\ skip' = FALSE
       ELSE /\ PrintT("REJECT " \o ToJson([l |-> l, case |-> e.case, ev |-> e.ev, phase |-> phase, diags |-> diags,
                                           executed |-> executed]))
            /\ skip' = TRUE /\ UNCHANGED fvars

TSpec == TInit /\ [][TNext]_tvars

AllConsumed ==
  LET d == TLCGet("stats").diameter IN
    IF d - 1 = Len(Rec) THEN TRUE ELSE PrintT(<<"NOT_CONSUMED", d, Len(Rec)>>) /\ FALSE
=============================================================================
