SPECIFICATION LSpec
CONSTANTS
  Cells = {c1, c2, c3}
  Lists = {l1, l2}
  MaxAddr = 4
  EqMode = "raw"
  HashMode = "raw"
INVARIANTS EqOK LookupOK
CHECK_DEADLOCK FALSE
