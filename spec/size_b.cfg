SPECIFICATION Spec
CONSTANTS
  NF = 3
  Cap <- Cap3
  IsSync <- Sync3
  MaxOps = 3
  OpKinds <- AllOps
  WBad = "-"
  WEnd = "-"
VIEW View
INVARIANT Inv
CHECK_DEADLOCK FALSE
