---------------------------- MODULE Trace_Cache ----------------------------
(* Trace validation of inline cache events (hook class "cache") against the contract Cache.tla.  Total:
   a refused event is reported and the rest of that run skipped. *)
EXTENDS Cache, Json, IOUtils

Rec == ndJsonDeserialize(IOEnv.TRACE)

VARIABLES l, skip
tvars == <<cachevars, l, skip>>

TInit == CacheInit /\ l = 1 /\ skip = FALSE

TNext ==
  /\ l <= Len(Rec)
  /\ l' = l + 1
  /\ LET e == Rec[l] IN
       IF e.ev = "reset" THEN ctab' = <<>> /\ cext' = <<>> /\ skip' = FALSE
       ELSE IF skip THEN UNCHANGED <<cachevars, skip>>
       ELSE IF ENABLED CacheAccept(e) THEN CacheAccept(e) /\ skip' = FALSE
       ELSE /\ PrintT("REJECT " \o ToJson([l |-> l, run |-> e.run, ev |-> e.ev, kind |-> e.kind, name |-> e.name,
                                           c |-> e.c, hit |-> e.hit, idx |-> e.idx, mid |-> e.mid,
                                           want |-> IF e.ev = "probe" /\ e.c \in DOMAIN ctab
                                                    THEN (IF e.kind \in {"get", "set"} THEN FieldOf(e.c, e.name) ELSE MethodOf(e.c, e.name))
                                                    ELSE 0 - 2]))
            /\ skip' = TRUE /\ UNCHANGED cachevars

TSpec == TInit /\ [][TNext]_tvars

AllConsumed ==
  LET d == TLCGet("stats").diameter IN
    IF d - 1 = Len(Rec) THEN TRUE ELSE PrintT(<<"NOT_CONSUMED", d, Len(Rec)>>) /\ FALSE
=============================================================================
