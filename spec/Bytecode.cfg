SPECIFICATION Spec
INVARIANT Show
CHECK_DEADLOCK FALSE
