---------------------------- MODULE Trace_Unwind ----------------------------
(* Trace validation of the frame / handler / nested-loop events of the VM (hook class "exc") against the
   contract Unwind.tla.  Total: a refused event is reported and the rest of that run skipped. *)
EXTENDS Unwind, Json, IOUtils

Rec == ndJsonDeserialize(IOEnv.TRACE)

VARIABLES l, skip
tvars == <<uvars, l, skip>>

TInit == UInit /\ l = 1 /\ skip = FALSE

Guard(e) ==
  CASE e.ev = "fpush" -> GPush(e.f, e.n)
    [] e.ev = "fpop" -> GPop(e.f, e.n)
    [] e.ev = "hpush" -> GHPush(e.f, e.n)
    [] e.ev = "hpop" -> GHPop(e.f)
    [] e.ev = "usearch" -> GSearch(e.f, e.n)
    [] e.ev = "uto" -> GTo(e.f, e.n)
    [] e.ev = "ustop" -> GStop(e.f)
    [] e.ev = "unhandled" -> GUnhandled(e.f)
    [] e.ev = "ucheck" -> GCheck(e.f)
    [] e.ev = "ucontinue" -> GContinue(e.f)
    [] e.ev = "uwhile" -> GContinue(e.f)
    [] e.ev = "ufinish" -> GFinish(e.f, e.n)
    [] e.ev = "nenter" -> GEnter(e.f, e.n)
    [] e.ev = "nexit" -> GExit(e.f, e.n, e.r)
    [] e.ev = "fsplit" -> GSplit(e.f, e.c)
    [] OTHER -> FALSE

Apply(e) ==
  CASE e.ev = "fpush" -> FPush(e.f, e.n)
    [] e.ev = "fpop" -> FPop(e.f, e.n)
    [] e.ev = "hpush" -> HPush(e.f, e.n)
    [] e.ev = "hpop" -> HPop(e.f)
    [] e.ev = "usearch" -> Search(e.f, e.n)
    [] e.ev = "uto" -> To(e.f, e.n)
    [] e.ev = "ustop" -> Stop(e.f)
    [] e.ev = "unhandled" -> Unhandled(e.f)
    [] e.ev = "ucheck" -> Check(e.f)
    [] e.ev = "ucontinue" -> Continue(e.f)
    [] e.ev = "uwhile" -> Continue(e.f)          \* a catch clause that is not a class: the handler is dropped, a new error starts
    [] e.ev = "ufinish" -> Finish(e.f, e.n)
    [] e.ev = "nenter" -> Enter(e.f, e.n)
    [] e.ev = "nexit" -> Exit(e.f, e.n, e.r)
    [] e.ev = "fsplit" -> Split(e.f, e.c)
    [] OTHER -> FALSE

TNext ==
  /\ l <= Len(Rec)
  /\ l' = l + 1
  /\ LET e == Rec[l] IN
       IF e.ev = "reset" THEN fib' = <<>> /\ skip' = FALSE
       ELSE IF skip THEN UNCHANGED <<uvars, skip>>
       ELSE IF Guard(e) THEN Apply(e) /\ skip' = FALSE
       ELSE /\ PrintT("REJECT " \o ToJson([l |-> l, run |-> e.run, ev |-> e.ev, f |-> e.f, n |-> e.n, r |-> e.r,
                                           state |-> Get(e.f)]))
            /\ skip' = TRUE /\ UNCHANGED uvars

TSpec == TInit /\ [][TNext]_tvars

AllConsumed ==
  LET d == TLCGet("stats").diameter IN
    IF d - 1 = Len(Rec) THEN TRUE ELSE PrintT(<<"NOT_CONSUMED", d, Len(Rec)>>) /\ FALSE
=============================================================================
