SPECIFICATION TSpec
VIEW TView
POSTCONDITION AllConsumed
CHECK_DEADLOCK FALSE
