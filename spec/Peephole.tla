------------------------------ MODULE Peephole ------------------------------
(***************************************************************************)
(* Property C12: the peephole optimiser never changes what a function      *)
(* does.                                                                   *)
(*                                                                         *)
(* Part 1 (contract): a symbolic stack machine for Laythe's symbolic       *)
(* bytecode.  Values are terms (strings) over an unknown initial stack and *)
(* unknown variable contents; executing a code sequence from an entry      *)
(* point yields a SET of outcomes (one per branch decision), each made of  *)
(* the effect log (stores, property reads, calls, operators that may       *)
(* raise, branch decisions), the final stack, the final variable contents  *)
(* and the way the sequence is left (fall through, jump L, loop L, return  *)
(* v, raise v).  Equiv(a, b) holds iff a and b have the same labels and    *)
(* the same outcome sets from the window entry and from every label.       *)
(*                                                                         *)
(* Part 2 (as-is): peephole_optimize of laythe_vm/src/compiler/peephole.rs *)
(* transcribed as a reader/writer cursor state machine, one action per     *)
(* match arm, arms tried in source order.                                  *)
(***************************************************************************)
EXTENDS Naturals, Sequences, TLC, FiniteSets

I(op, a, b) == [op |-> op, a |-> a, b |-> b]

-----------------------------------------------------------------------------
\* Part 1: symbolic machine

Init0 == [st |-> <<"s12", "s11", "s10", "s9", "s8", "s7", "s6", "s5", "s4", "s3", "s2", "s1">>,  \* top = last
          mem |-> <<>>,       \* location -> term, for locations written (or havocked) so far
          ep |-> 0,           \* number of calls so far: non-local variables may have changed at each call
          log |-> <<>>,
          under |-> FALSE]

Top(S) == S.st[Len(S.st)]
Peek(S, n) == S.st[Len(S.st) - n]
Pop(S, n) == [S EXCEPT !.st = SubSeq(@, 1, Len(@) - n)]
Push(S, t) == [S EXCEPT !.st = Append(@, t)]
Log(S, e) == [S EXCEPT !.log = Append(@, e)]
Has(S, n) == Len(S.st) >= n
Under(S) == [S EXCEPT !.under = TRUE]

IsLocal(loc) == SubSeq(loc, 1, 1) = "l"
Read(S, loc) == IF loc \in DOMAIN S.mem THEN S.mem[loc]
                ELSE IF IsLocal(loc) THEN "@" \o loc ELSE "@" \o loc \o "#" \o ToString(S.ep)
Write(S, loc, t) == [S EXCEPT !.mem = (loc :> t) @@ @]

\* a call may run arbitrary code: everything but the frame's own locals is unknown afterwards
Havoc(S) == [S EXCEPT !.ep = Len(S.log),
                      !.mem = [l \in {x \in DOMAIN S.mem : IsLocal(x)} |-> S.mem[l]]]

RECURSIVE Join(_)
Join(ts) == IF ts = <<>> THEN "" ELSE ts[1] \o (IF Len(ts) > 1 THEN "," ELSE "") \o Join(Tail(ts))

\* call with n arguments, callee term given, the n arguments on top of the stack, `extra` further
\* operands below them are consumed as well
DoCall(S, callee, n, extra) ==
  LET args == SubSeq(S.st, Len(S.st) - n + 1, Len(S.st))
      S1 == Log(Pop(S, n + extra), "call " \o callee \o "(" \o Join(args) \o ")")
      S2 == Havoc(S1)
  IN Push(S2, "r" \o ToString(Len(S2.log)))

Load(S, kind, a) == Push(S, Read(S, kind \o ToString(a)))
Store(S, kind, a) ==
  IF ~Has(S, 1) THEN Under(S)
  ELSE Log(Write(S, kind \o ToString(a), Top(S)), "set " \o kind \o ToString(a) \o " " \o Top(S))

Bin(S, name) ==
  IF ~Has(S, 2) THEN Under(S)
  ELSE LET t == name \o "(" \o Peek(S, 1) \o "," \o Peek(S, 0) \o ")"
       IN Push(Log(Pop(S, 2), t), t)

Un(S, name) ==
  IF ~Has(S, 1) THEN Under(S)
  ELSE LET t == name \o "(" \o Top(S) \o ")" IN Push(Log(Pop(S, 1), t), t)

PushOps == {"Nil", "True", "False", "Constant", "ConstantLong", "Channel", "EmptyBox", "GetError",
            "LoadGlobal", "Import", "ImportSym", "Closure", "Class"}
NoOps == {"PropertySlot", "InvokeSlot", "ArgumentDelimiter", "Label", "CaptureIndex", "PopHandler",
          "PushHandler", "FinishUnwind", "ContinueUnwind", "Export", "DeclareModSym", "Field", "Inherit", "Box"}
BinOps == {"Add", "Subtract", "Multiply", "Divide", "Equal", "NotEqual", "Greater", "GreaterEqual", "Less",
           "LessEqual"}
UnOps == {"Negate", "Not", "Receive", "BufferedChannel", "GetProp", "IterCurrent", "IterNext"}

\* straight-line instructions
Exec(ins, S) ==
  CASE ins.op \in PushOps -> Push(Log(S, "push " \o ins.op \o ToString(ins.a)), ins.op \o ToString(ins.a) \o "@" \o ToString(Len(S.log)))
    [] ins.op \in NoOps -> IF ins.op \in {"PropertySlot", "InvokeSlot", "ArgumentDelimiter", "Label", "CaptureIndex"}
                           THEN S ELSE Log(S, ins.op \o ToString(ins.a))
    [] ins.op \in BinOps -> Bin(S, ins.op)
    [] ins.op \in UnOps -> Un(S, ins.op \o ToString(ins.a))
    [] ins.op = "Drop" -> IF Has(S, 1) THEN Pop(S, 1) ELSE Under(S)
    [] ins.op = "DropN" -> IF Has(S, ins.a) THEN Pop(S, ins.a) ELSE Under(S)
    [] ins.op = "Dup" -> IF Has(S, 1) THEN Push(S, Top(S)) ELSE Under(S)
    [] ins.op = "GetLocal" -> Load(S, "l", ins.a)
    [] ins.op = "SetLocal" -> Store(S, "l", ins.a)
    [] ins.op = "GetBox" -> Load(S, "b", ins.a)
    [] ins.op = "SetBox" -> Store(S, "b", ins.a)
    [] ins.op = "GetCapture" -> Load(S, "c", ins.a)
    [] ins.op = "SetCapture" -> Store(S, "c", ins.a)
    [] ins.op = "GetModSym" -> Load(S, "m", ins.a)
    [] ins.op = "SetModSym" -> Store(S, "m", ins.a)
    [] ins.op = "FillBox" -> IF Has(S, 2) THEN Log(Pop(S, 1), "fillbox " \o Peek(S, 1) \o " " \o Top(S)) ELSE Under(S)
    [] ins.op = "Send" -> IF Has(S, 2) THEN Log(Pop(S, 1), "send " \o Top(S) \o " " \o Peek(S, 1)) ELSE Under(S)
    [] ins.op = "GetPropByName" ->
         IF ~Has(S, 1) THEN Under(S)
         ELSE LET t == "prop(" \o Top(S) \o "," \o ToString(ins.a) \o ")" IN Push(Log(Pop(S, 1), "get " \o t), t)
    [] ins.op \in {"SetPropByName", "SetProp"} ->
         IF ~Has(S, 2) THEN Under(S)
         ELSE LET v == Top(S) IN Push(Log(Pop(S, 2), "setprop " \o Peek(S, 1) \o "." \o ToString(ins.a) \o "=" \o v), v)
    [] ins.op = "Call" ->
         IF ~Has(S, ins.a + 1) THEN Under(S) ELSE DoCall(S, Peek(S, ins.a), ins.a, 1)
    [] ins.op = "Invoke" ->
         \* by definition a property read on the receiver followed by a call of the result
         IF ~Has(S, ins.b + 1) THEN Under(S)
         ELSE LET t == "prop(" \o Peek(S, ins.b) \o "," \o ToString(ins.a) \o ")"
              IN DoCall(Log(S, "get " \o t), t, ins.b, 1)
    [] ins.op = "GetSuper" ->
         IF ~Has(S, 2) THEN Under(S)
         ELSE LET t == "super(" \o Peek(S, 1) \o "," \o Top(S) \o "," \o ToString(ins.a) \o ")" IN Push(Log(Pop(S, 2), "get " \o t), t)
    [] ins.op = "SuperInvoke" ->
         \* stack: self, args.., superclass
         IF ~Has(S, ins.b + 2) THEN Under(S)
         ELSE IF ins.b = 0 THEN
              LET t == "super(" \o Peek(S, 1) \o "," \o Top(S) \o "," \o ToString(ins.a) \o ")"
              IN DoCall(Log(Pop(S, 1), "get " \o t), t, 0, 1)
         ELSE LET t == "super(" \o Peek(S, ins.b + 1) \o "," \o Top(S) \o "," \o ToString(ins.a) \o ")"
              IN DoCall(Log(Pop(S, 1), "get " \o t), t, ins.b, 1)
    [] ins.op \in {"List", "Tuple", "Interpolate"} ->
         IF ~Has(S, ins.a) THEN Under(S)
         ELSE Push(Pop(S, ins.a), ins.op \o "[" \o Join(SubSeq(S.st, Len(S.st) - ins.a + 1, Len(S.st))) \o "]")
    [] ins.op = "Map" ->
         IF ~Has(S, 2 * ins.a) THEN Under(S)
         ELSE Push(Pop(S, 2 * ins.a), "Map[" \o Join(SubSeq(S.st, Len(S.st) - 2 * ins.a + 1, Len(S.st))) \o "]")
    [] ins.op = "Launch" ->
         IF ~Has(S, ins.a + 1) THEN Under(S)
         ELSE Havoc(Log(Pop(S, ins.a + 1), "launch " \o Peek(S, ins.a) \o "(" \o Join(SubSeq(S.st, Len(S.st) - ins.a + 1, Len(S.st))) \o ")"))
    [] ins.op \in {"Method", "StaticMethod"} ->
         IF ~Has(S, 2) THEN Under(S) ELSE Log(Pop(S, 1), ins.op \o ToString(ins.a) \o " " \o Peek(S, 1) \o " " \o Top(S))
    [] ins.op = "CheckHandler" -> IF Has(S, 1) THEN Log(Pop(S, 1), "check " \o Top(S)) ELSE Under(S)
    [] OTHER -> Log(S, "?" \o ins.op)

Out(S, exit) == [s |-> IF S.under THEN Init0 ELSE S, exit |-> IF S.under THEN "underflow" ELSE exit]

Transfers == {"Jump", "Loop", "Return", "Raise", "JumpIfFalse", "And", "Or"}

\* all outcomes of running code from instruction i (1-based) in state S
RECURSIVE Run(_, _, _)
Run(code, i, S) ==
  IF S.under THEN {Out(S, "")}
  ELSE IF i > Len(code) THEN {Out(S, "fall")}
  ELSE LET ins == code[i] IN
    CASE ins.op = "Jump" -> {Out(S, "jump " \o ToString(ins.a))}
      [] ins.op = "Loop" -> {Out(S, "loop " \o ToString(ins.a))}
      [] ins.op = "Return" -> IF Has(S, 1) THEN {Out(S, "return " \o Top(S))} ELSE {Out(Under(S), "")}
      [] ins.op = "Raise" -> IF Has(S, 1) THEN {Out(S, "raise " \o Top(S))} ELSE {Out(Under(S), "")}
      [] ins.op = "JumpIfFalse" ->
           IF ~Has(S, 1) THEN {Out(Under(S), "")}
           ELSE LET c == Top(S) S1 == Pop(S, 1)
                IN {Out(Log(S1, "false? " \o c), "jump " \o ToString(ins.a))}
                   \cup Run(code, i + 1, Log(S1, "true? " \o c))
      [] ins.op = "And" ->
           IF ~Has(S, 1) THEN {Out(Under(S), "")}
           ELSE LET c == Top(S)
                IN {Out(Log(S, "false? " \o c), "jump " \o ToString(ins.a))}
                   \cup Run(code, i + 1, Log(Pop(S, 1), "true? " \o c))
      [] ins.op = "Or" ->
           IF ~Has(S, 1) THEN {Out(Under(S), "")}
           ELSE LET c == Top(S)
                IN {Out(Log(S, "true? " \o c), "jump " \o ToString(ins.a))}
                   \cup Run(code, i + 1, Log(Pop(S, 1), "false? " \o c))
      [] OTHER -> Run(code, i + 1, Exec(ins, S))

LabelIdx(code) == {i \in 1 .. Len(code) : code[i].op = "Label"}
Labels(code) == {code[i].a : i \in LabelIdx(code)}
PosOf(code, L) == CHOOSE i \in LabelIdx(code) : code[i].a = L

\* THE CONTRACT
Equiv(a, b) ==
  /\ Labels(a) = Labels(b)
  /\ Cardinality(LabelIdx(a)) = Cardinality(Labels(a))      \* a label is defined once
  /\ Cardinality(LabelIdx(b)) = Cardinality(Labels(b))
  /\ Run(a, 1, Init0) = Run(b, 1, Init0)
  /\ \A L \in Labels(a) : Run(a, PosOf(a, L) + 1, Init0) = Run(b, PosOf(b, L) + 1, Init0)

\* Lines: with the input lines all distinct, the line of an output instruction names the input
\* instruction it came from; that instruction must be the one it copies or the head of the group it fuses,
\* and the order is kept.
Loads == {"GetLocal", "GetModSym", "GetBox", "GetCapture"}
Related(i, o) ==
  \/ i = o
  \/ o.op = "DropN" /\ i.op = "Drop"
  \/ o.op = "Invoke" /\ i.op = "GetPropByName" /\ o.a = i.a
  \/ o.op = "SuperInvoke" /\ i.op = "GetSuper" /\ o.a = i.a
  \/ o.op = "InvokeSlot" /\ i.op \in {"GetPropByName", "GetSuper"}
  \/ o.op = "Dup" /\ i.op \in Loads

LinesOK(in, inl, out, outl) ==
  /\ Len(outl) = Len(out)
  /\ \A j \in 1 .. Len(out) :
       /\ \E k \in 1 .. Len(in) : inl[k] = outl[j] /\ Related(in[k], out[j])
       /\ j > 1 => outl[j - 1] <= outl[j]

-----------------------------------------------------------------------------
\* Part 2: peephole_optimize as a cursor machine.
\* win = the input (code, lines); r = instructions read; out/outl = what has been written.

VARIABLES win, r, out, outl, oflow

pvars == <<win, r, out, outl, oflow>>

At(k) == win.code[r + k]          \* k-th unread instruction (1-based)
Left == Len(win.code) - r
LineAt(k) == win.lines[r + k]

RECURSIVE DropRun(_)
DropRun(k) == IF k <= Left /\ At(k).op = "Drop" THEN DropRun(k + 1) ELSE k - 1   \* length of the run of Drops

RECURSIVE SameRun(_, _)
SameRun(load, k) == IF k <= Left /\ At(k) = load THEN SameRun(load, k + 1) ELSE k - 1

RECURSIVE DeadRun(_)
DeadRun(k) == IF k <= Left /\ At(k).op # "Label" THEN DeadRun(k + 1) ELSE k - 1

Emit(n, code, lines) ==
  /\ r' = r + n
  /\ out' = out \o code
  /\ outl' = outl \o lines
  /\ UNCHANGED win

StorePairs == {<<"SetLocal", "GetLocal">>, <<"SetBox", "GetBox">>, <<"SetCapture", "GetCapture">>,
               <<"SetModSym", "GetModSym">>}

\* The match arms, in source order; Arm(n) is enabled only if no earlier arm matches.
M1 == Left >= 2 /\ At(1).op = "Drop" /\ At(2).op = "Drop"
M2 == Left >= 3 /\ At(1).op = "GetPropByName" /\ At(2).op = "PropertySlot" /\ At(3).op = "Call"
M3 == Left >= 2 /\ At(1).op = "GetSuper" /\ At(2).op = "Call"
M4 == Left >= 3 /\ <<At(1).op, At(3).op>> \in StorePairs /\ At(2).op = "Drop"
M5 == Left >= 2 /\ At(1).op \in Loads /\ At(2).op = At(1).op
M6 == Left >= 1 /\ At(1).op \in {"Jump", "Loop", "Return", "Raise"}
M7 == Left >= 1 /\ At(1).op = "ArgumentDelimiter"

MergeDrops ==
  /\ M1
  /\ LET n == DropRun(1) IN
       /\ oflow' = (oflow \/ n > 255)          \* drop_count is a u8
       /\ Emit(n, <<I("DropN", n % 256, 0)>>, <<LineAt(1)>>)

FuseInvoke ==
  /\ ~M1 /\ M2
  /\ Emit(3, <<I("Invoke", At(1).a, At(3).a), I("InvokeSlot", 0, 0)>>, <<LineAt(1), LineAt(1)>>)
  /\ UNCHANGED oflow

FuseSuper ==
  /\ ~M1 /\ ~M2 /\ M3
  /\ Emit(2, <<I("SuperInvoke", At(1).a, At(2).a), I("InvokeSlot", 0, 0)>>, <<LineAt(1), LineAt(1)>>)
  /\ UNCHANGED oflow

StoreReload ==
  /\ ~M1 /\ ~M2 /\ ~M3 /\ M4
  /\ IF At(1).a = At(3).a THEN Emit(3, <<At(1)>>, <<LineAt(1)>>)
                          ELSE Emit(1, <<At(1)>>, <<LineAt(1)>>)
  /\ UNCHANGED oflow

LoadMultiple ==
  /\ ~M1 /\ ~M2 /\ ~M3 /\ ~M4 /\ M5
  /\ LET n == SameRun(At(1), 1) IN
       Emit(n, <<At(1)>> \o [k \in 1 .. n - 1 |-> I("Dup", 0, 0)], [k \in 1 .. n |-> LineAt(k)])
  /\ UNCHANGED oflow

DeadCode ==
  /\ ~M1 /\ ~M2 /\ ~M3 /\ ~M4 /\ ~M5 /\ M6
  /\ Emit(DeadRun(2), <<At(1)>>, <<LineAt(1)>>)     \* the transfer plus everything up to the next label
  /\ UNCHANGED oflow

SkipDelimiter ==
  /\ ~M1 /\ ~M2 /\ ~M3 /\ ~M4 /\ ~M5 /\ ~M6 /\ M7
  /\ Emit(1, <<>>, <<>>)
  /\ UNCHANGED oflow

Copy ==
  /\ Left >= 1
  /\ ~M1 /\ ~M2 /\ ~M3 /\ ~M4 /\ ~M5 /\ ~M6 /\ ~M7
  /\ Emit(1, <<At(1)>>, <<LineAt(1)>>)
  /\ UNCHANGED oflow

OptStep == MergeDrops \/ FuseInvoke \/ FuseSuper \/ StoreReload \/ LoadMultiple \/ DeadCode \/ SkipDelimiter \/ Copy

Done == r = Len(win.code)

\* what the function looks like if the optimiser stopped here: written part + unread part
Current == out \o SubSeq(win.code, r + 1, Len(win.code))

\* the inductive statement: every single rewrite preserves the meaning of the whole window
StepInv == oflow \/ Equiv(win.code, Current)
=============================================================================
