SPECIFICATION Spec
VIEW View
INVARIANT Result
CHECK_DEADLOCK FALSE
