SPECIFICATION Spec
CONSTANTS
  NF = 4
  Cap <- Cap3
  IsSync <- Sync3
  MaxOps = 5
  OpKinds <- AllOps
  WBad = "-"
  WEnd = "-"
INVARIANT Emit
CHECK_DEADLOCK FALSE
