SPECIFICATION Spec
CONSTANTS
  NF = 4
  Cap <- Cap3
  IsSync <- Sync3
  MaxOps = 5
  OpKinds <- AllOps
  FocusMode = FALSE
  WBad = "-"
  WEnd = "-"
INVARIANT Emit
CHECK_DEADLOCK FALSE
