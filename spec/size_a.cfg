SPECIFICATION Spec
CONSTANTS
  NF = 4
  Cap <- Cap2
  IsSync <- Sync2
  MaxOps = 3
  OpKinds <- AllOps
  WBad = "-"
  WEnd = "-"
VIEW View
INVARIANT Inv
CHECK_DEADLOCK FALSE
