------------------------------ MODULE Frontend ------------------------------
(* The front end as its user sees it (laythe_vm/src/vm/mod.rs: interpret / run / repl over
   scanner -> parser -> resolver -> compiler).  One text is one pass:

       Submit(text) ; Diagnose* ; ( Reject | Accept ; Execute* ; Finish(status) )

   and the properties are about what may follow what:
     - the pass ends (no host failure, no hang: a pass that ends in "panic" or "hang" is refused),
     - Reject happens exactly when at least one diagnostic was reported and carries the compile-error status,
     - nothing of a rejected text is executed,
     - in a session (interactive prompt) a rejected entry changes nothing: every name defined by earlier
       accepted entries is still defined, and the session goes on.

   The grammar itself is not part of this specification: which texts are accepted is the implementation's
   business (C01 / C19 decide that for generated programs); here every text is a possible input and the
   specification says what any pass must look like.                                                      *)
EXTENDS Naturals, Sequences, FiniteSets, TLC

VARIABLES phase,     \* "idle" | "compiling" | "rejected" | "running" | "finished"
          diags,     \* diagnostics reported for the text in flight
          executed,  \* TRUE once any effect of the text in flight was observed
          defs,      \* session: names defined by accepted entries so far
          session    \* TRUE inside an interactive session
fvars == <<phase, diags, executed, defs, session>>

FInit == phase = "idle" /\ diags = 0 /\ executed = FALSE /\ defs = {} /\ session = FALSE

Start(isSession) ==
  /\ phase \in {"idle", "rejected", "finished"}
  /\ phase' = "idle" /\ diags' = 0 /\ executed' = FALSE /\ defs' = {} /\ session' = isSession

Submit ==
  /\ phase \in {"idle", "rejected", "finished"}
  /\ (phase # "idle" => session)                 \* only a session takes a second text
  /\ phase' = "compiling" /\ diags' = 0 /\ executed' = FALSE
  /\ UNCHANGED <<defs, session>>

Diagnose ==
  /\ phase = "compiling" /\ diags' = diags + 1
  /\ UNCHANGED <<phase, executed, defs, session>>

Reject(status) ==
  /\ phase = "compiling" /\ diags > 0
  /\ status = "compile_error"
  /\ phase' = "rejected"
  /\ UNCHANGED <<diags, executed, defs, session>>

Accept ==
  /\ phase = "compiling" /\ diags = 0
  /\ phase' = "running"
  /\ UNCHANGED <<diags, executed, defs, session>>

Execute(newdefs) ==
  /\ phase = "running"
  /\ executed' = TRUE /\ defs' = defs \cup newdefs
  /\ UNCHANGED <<phase, diags, session>>

Finish(status) ==
  /\ phase = "running"
  /\ status \in {"ok", "runtime_error", "exit"}
  /\ phase' = "finished"
  /\ UNCHANGED <<diags, executed, defs, session>>

\* a probe of the session: exactly the names defined so far are visible
Probe(visible) ==
  /\ session /\ phase \in {"rejected", "finished"}
  /\ visible = defs
  /\ UNCHANGED fvars

FNext == \/ \E b \in BOOLEAN : Start(b)
         \/ Submit \/ Diagnose \/ Accept
         \/ \E s \in {"compile_error"} : Reject(s)
         \/ \E s \in {"ok", "runtime_error", "exit"} : Finish(s)
         \/ \E n \in SUBSET {"a", "b"} : Execute(n)
         \/ \E n \in SUBSET {"a", "b"} : Probe(n)
FSpec == FInit /\ [][FNext]_fvars

\* ---- properties of the contract itself (checked by TLC on the small model MC_Frontend)
NothingExecutedWhenRejected == phase = "rejected" => ~executed
RejectedIffDiagnosed == (phase = "rejected" => diags > 0) /\ (phase \in {"running", "finished"} => diags = 0)
DefsOnlyGrowInSession == [][(session /\ phase' # "idle") => defs \subseteq defs']_fvars   \* phase' = "idle": a new session starts
RejectKeepsDefs == [][phase' = "rejected" => defs' = defs]_fvars
=============================================================================
