SPECIFICATION TSpec
POSTCONDITION AllConsumed
CHECK_DEADLOCK FALSE
