---------------------------- MODULE Trace_Fibers ----------------------------
(***************************************************************************)
(* Trace validation of scheduler/channel event streams recorded from the   *)
(* real VM against the CONTRACT (Fibers.tla).  The input is one NDJSON     *)
(* file holding many runs, separated by "reset" events (fields are         *)
(* normalised by tools/schedlib.py so that every record has the same       *)
(* shape).  The spec is total: an event the contract does not accept is    *)
(* recorded as a rejection (printed with its reason) and the rest of that  *)
(* run is skipped, so one TLC run judges every recorded run.               *)
(***************************************************************************)
EXTENDS Fibers, Json, IOUtils

Rec == ndJsonDeserialize(IOEnv.TRACE)

VARIABLES l,      \* next record
          skip    \* TRUE while skipping the rest of a rejected run

tvars == <<cvars, l, skip>>

TInit == CInit /\ l = 1 /\ skip = FALSE

Reset == /\ cch' = <<>> /\ cfib' = <<>> /\ cend' = "run" /\ csent' = <<>> /\ crcvd' = <<>>

Reason(e) ==
  IF e.ev = "deadlock" /\ cend = "run" THEN DeadlockReason
  ELSE IF cend # "run" THEN "after-end"
  ELSE IF e.ev \in {"send", "recv", "complete", "launch", "exit", "chan"} /\ Known(e.f) /\ cfib[e.f].st = "handed"
       THEN "handed-sender-moved"
  ELSE "guard"

TNext ==
  /\ l <= Len(Rec)
  /\ l' = l + 1
  /\ LET e == Rec[l] IN
       IF e.ev = "reset" THEN Reset /\ skip' = FALSE
       ELSE IF skip \/ Internal(e) THEN UNCHANGED <<cvars, skip>>
       ELSE IF ENABLED Accept(e) THEN Accept(e) /\ skip' = FALSE
       ELSE /\ PrintT("REJECT " \o ToJson([l |-> l, run |-> e.run, ev |-> e.ev, res |-> e.res, reason |-> Reason(e)]))
            /\ skip' = TRUE
            /\ UNCHANGED cvars

TSpec == TInit /\ [][TNext]_tvars

\* every record was consumed
AllConsumed ==
  LET d == TLCGet("stats").diameter IN
    IF d - 1 = Len(Rec) THEN TRUE
    ELSE PrintT(<<"NOT_CONSUMED", d, Len(Rec)>>) /\ FALSE

TInv == CInv
=============================================================================
