------------------------------- MODULE Natives -------------------------------
(* The gate in front of every built-in: Native::check_if_valid_call (laythe_core/src/object/native.rs)
   with Arity and ParameterKind::is_valid (laythe_core/src/signature.rs), called from
   Vm::check_native_arity on every path that reaches a native (op_call / op_invoke / callbacks through
   resolve_call).  The body of a native indexes its argument slice and unwraps the kinds its signature
   declares, so it is safe exactly when this gate lets through only argument vectors that have the
   declared shape.

   The table of signatures is not written here: it is read from the running VM (lvh natives, the
   `verif` hook that walks the global module and the standard library), so the specification decides
   about the signatures the code really registers.

   One behaviour = pick a native, pass it argument kinds one by one, call it.  TLC enumerates every
   behaviour up to MaxArgs explicit arguments and prints, for each call, the gate's verdict
       "arity"  the argument count is refused
       "kind"   an argument of the wrong kind is refused
       "body"   the native's body runs
   The conformance side (tools/c_native.py) instantiates every call with concrete values, runs it on
   the VM and requires the same verdict (read off the error message the gate produces) and, for
   "body", any language-level result but never a host failure.                                        *)
EXTENDS Naturals, Sequences, FiniteSets, TLC, Json, IOUtils

CONSTANTS MaxArgs,      \* explicit arguments per call (the receiver of a method comes on top)
          Kinds         \* the argument kinds to enumerate, a subset of AllKinds

Table == JsonDeserialize(IOEnv.NATIVES)
\* record: id, arity in {"fixed","variadic","default"}, min, max, method (BOOLEAN), params (sequence of
\* "object" | "boolean" | "number" | "string" | "callable" | "iterator"); min/max/params count the receiver of a method

AllKinds == {"nil", "bool", "num", "str", "list", "map", "tuple", "fun", "closure", "native", "method",
             "class", "inst", "iter", "chan"}
Callables == {"fun", "closure", "native", "method"}

ASSUME Kinds \subseteq AllKinds /\ MaxArgs \in Nat

\* ParameterKind::is_valid
Valid(pk, k) ==
  CASE pk = "object" -> TRUE
    [] pk = "boolean" -> k = "bool"
    [] pk = "number" -> k = "num"
    [] pk = "string" -> k = "str"
    [] pk = "callable" -> k \in Callables
    [] pk = "iterator" -> k = "iter"
    [] OTHER -> FALSE

Min2(a, b) == IF a < b THEN a ELSE b

\* the parameter an argument position is checked against (0 = the position is not checked)
ParamAt(n, i) ==
  CASE n.arity = "variadic" -> IF i <= n.min THEN i ELSE n.min + 1
    [] OTHER -> IF i <= Len(n.params) THEN i ELSE 0

\* Native::check_if_valid_call; full = receiver (for a method) followed by the explicit arguments
Verdict(n, full) ==
  LET c == Len(full)
      badKind == \E i \in 1 .. c : ParamAt(n, i) # 0 /\ ~Valid(n.params[ParamAt(n, i)], full[i])
  IN CASE n.arity = "fixed" -> IF c # n.min THEN "arity" ELSE IF badKind THEN "kind" ELSE "body"
       [] n.arity = "variadic" -> IF c < n.min THEN "arity" ELSE IF badKind THEN "kind" ELSE "body"
       [] n.arity = "default" -> IF c < n.min \/ c > n.max THEN "arity" ELSE IF badKind THEN "kind" ELSE "body"

\* how many explicit arguments are worth passing: one more than the native accepts, at most MaxArgs
Explicit(n, c) == IF n.method THEN c - 1 ELSE c
Limit(n) == IF n.arity = "variadic" THEN MaxArgs ELSE Min2(Explicit(n, n.max) + 1, MaxArgs)

VARIABLES ni, args, phase, verdict
vars == <<ni, args, phase, verdict>>

Full(n, as) == IF n.method THEN <<"recv">> \o as ELSE as

Init == ni \in 1 .. Len(Table) /\ args = <<>> /\ phase = "build" /\ verdict = ""

AddArg(k) ==
  /\ phase = "build" /\ Len(args) < Limit(Table[ni])
  /\ args' = Append(args, k)
  /\ UNCHANGED <<ni, phase, verdict>>

\* the receiver of a method is whatever the method was found on: it always has the owner's kind, and
\* every registered method declares it as "object" (TableOK), so it stands for itself here
CallIt ==
  /\ phase = "build"
  /\ phase' = "called"
  /\ verdict' = Verdict(Table[ni], Full(Table[ni], args))
  /\ UNCHANGED <<ni, args>>

Next == (\E k \in Kinds : AddArg(k)) \/ CallIt
Spec == Init /\ [][Next]_vars

---------------------------------------------------------------------------------------------------------
\* what a body may rely on when it runs: position i holds the kind its parameter declares
Assumed(n, i) == IF ParamAt(n, i) = 0 THEN "object" ELSE n.params[ParamAt(n, i)]

BodySafe ==
  (phase = "called" /\ verdict = "body") =>
     LET n == Table[ni] full == Full(n, args) IN
       /\ \A i \in 1 .. Len(full) : full[i] = "recv" \/ Valid(Assumed(n, i), full[i])
       /\ Len(full) >= n.min
       /\ n.arity # "variadic" => Len(full) <= n.max

\* the registered table itself: counts are consistent, a variadic native has its rest parameter,
\* every method takes its receiver as an unconstrained first parameter
TableOK ==
  \A j \in 1 .. Len(Table) :
    LET n == Table[j] IN
      /\ n.min <= n.max
      /\ n.arity = "fixed" => n.min = n.max /\ Len(n.params) >= n.min
      /\ n.arity = "default" => Len(n.params) >= n.max
      /\ n.arity = "variadic" => Len(n.params) >= n.min + 1
      /\ n.method => (n.min >= 1 /\ n.params[1] = "object")

\* "recv" is only ever checked against an "object" parameter (TableOK), make Valid total for it
RecvOK == \A j \in 1 .. Len(Table) : Table[j].method => Valid(Table[j].params[1], "recv")

\* every finished call is printed once: the behaviours handed to the conformance side
Emit ==
  (phase' = "called" /\ phase = "build") =>
     PrintT("CALL " \o ToJson([ni |-> ni, args |-> args, verdict |-> verdict']))
=============================================================================
