-------------------------------- MODULE Lang --------------------------------
(***************************************************************************)
(* Executable source-level semantics of Laythe (the CONTRACT for C01-C04,  *)
(* C18, C19 and the output oracle of several other properties).            *)
(*                                                                         *)
(* A program is a flat table of AST nodes (deserialised from JSON, not     *)
(* part of the state).  The abstract machine is a CEK machine: control     *)
(* (a node to evaluate / a value being returned / a signal being unwound), *)
(* environment (a chain of scopes mapping names to store locations),       *)
(* store, heap (lists, closures, classes, instances, bound methods) and a  *)
(* continuation stack.  One TLC transition = one reduction.  The           *)
(* observable behaviour is the sequence of printed lines and the way the   *)
(* program ends.  Nothing in here knows about bytecode, stack slots,       *)
(* boxes, caches or the collector: that is the point.                      *)
(*                                                                         *)
(* Strings are sequences of code points, numbers are integers plus the     *)
(* symbolic numerals nan / inf / ninf / nzero (DESIGN 2.4).                *)
(***************************************************************************)
EXTENDS Integers, Sequences, TLC, FiniteSets, Json, IOUtils

Progs == ndJsonDeserialize(IOEnv.PROGS)

VARIABLES pi,   \* program index
          M     \* machine state (record, see Init)

\* ---------------------------------------------------------------------------
\* Values
V(t, n, x, cp) == [t |-> t, n |-> n, x |-> x, cp |-> cp]
Nil == V("nil", 0, "", <<>>)
B(b) == V("bool", IF b THEN 1 ELSE 0, "", <<>>)
N(n) == V("num", n, "", <<>>)
Sp(x) == V("num", 0, x, <<>>)            \* symbolic numeral
S(cp) == V("str", 0, "", cp)
R(id, kind) == V("ref", id, kind, <<>>)
Poison == V("poison", 0, "", <<>>)       \* marks a computation the model cannot decide: the program is skipped
Frac == V("num", 0, "frac", <<>>)         \* some non-integer number: can be carried around and printed (as a wildcard),
                                          \* but not compared

Truthy(v) == ~(v.t = "nil" \/ (v.t = "bool" /\ v.n = 0))
IsNum(v) == v.t = "num"
IsInt(v) == v.t = "num" /\ v.x = ""
IsStr(v) == v.t = "str"

\* code points of ASCII text used by the model itself
Digit(d) == 48 + d
RECURSIVE NatCp(_)
NatCp(n) == IF n < 10 THEN <<Digit(n)>> ELSE NatCp(n \div 10) \o <<Digit(n % 10)>>
IntCp(n) == IF n < 0 THEN <<45>> \o NatCp(0 - n) ELSE NatCp(n)

CpNil == <<110, 105, 108>>
CpTrue == <<116, 114, 117, 101>>
CpFalse == <<102, 97, 108, 115, 101>>
CpNaN == <<78, 97, 78>>
CpInf == <<105, 110, 102>>
CpOpaque == <<60, 63, 62>>             \* "<?>" : text that contains an address, compared as a wildcard

NumCp(v) == CASE v.x = "" -> IntCp(v.n)
              [] v.x = "frac" -> <<0>>
              [] v.x = "nan" -> CpNaN
              [] v.x = "inf" -> CpInf
              [] v.x = "ninf" -> <<45>> \o CpInf
              [] v.x = "nzero" -> <<45, 48>>

\* IEEE comparison on the numerals:  Cmp gives "lt" "eq" "gt" "un"(ordered)
NumCmp(a, b) ==
  IF a.x = "nan" \/ b.x = "nan" THEN "un"
  ELSE LET rank(v) == CASE v.x = "ninf" -> 0 - 2000000000 [] v.x = "inf" -> 2000000000 [] v.x = "nzero" -> 0 [] OTHER -> v.n
       IN IF rank(a) < rank(b) THEN "lt" ELSE IF rank(a) > rank(b) THEN "gt" ELSE "eq"

RECURSIVE CpCmp(_, _)
CpCmp(a, b) == IF a = <<>> /\ b = <<>> THEN "eq"
               ELSE IF a = <<>> THEN "lt" ELSE IF b = <<>> THEN "gt"
               ELSE IF Head(a) < Head(b) THEN "lt" ELSE IF Head(a) > Head(b) THEN "gt"
               ELSE CpCmp(Tail(a), Tail(b))

ValEq(a, b) ==
  IF a.t # b.t THEN FALSE
  ELSE CASE a.t = "nil" -> TRUE
         [] a.t = "bool" -> a.n = b.n
         [] a.t = "num" -> NumCmp(a, b) = "eq"
         [] a.t = "str" -> a.cp = b.cp
         [] a.t = "ref" -> a.n = b.n
         [] OTHER -> FALSE

\* arithmetic over integers and the symbolic numerals (only what generated programs can reach)
IsZero(v) == v.x = "nzero" \/ (v.x = "" /\ v.n = 0)
Sign(v) == CASE v.x = "ninf" -> 0 - 1 [] v.x = "inf" -> 1 [] v.x = "nzero" -> 0 - 1 [] v.x = "nan" -> 0
             [] OTHER -> IF v.n < 0 THEN 0 - 1 ELSE 1        \* sign bit, +0 is positive
Neg(v) == CASE v.x = "" -> IF v.n = 0 THEN Sp("nzero") ELSE N(0 - v.n)
            [] v.x = "frac" -> Frac
            [] v.x = "nzero" -> N(0)
            [] v.x = "inf" -> Sp("ninf") [] v.x = "ninf" -> Sp("inf") [] OTHER -> v
Arith(op, a, b) ==
  IF a.x = "nan" \/ b.x = "nan" THEN Sp("nan")
  ELSE IF a.x = "frac" \/ b.x = "frac" THEN (IF a.x \in {"", "frac"} /\ b.x \in {"", "frac"} /\ ~(op = "/" /\ IsZero(b)) THEN Frac ELSE Poison)
  ELSE IF a.x = "" /\ b.x = "" /\ (a.n > 30000 \/ a.n < 0 - 30000 \/ b.n > 30000 \/ b.n < 0 - 30000) THEN Poison  \* outside the modelled range
  ELSE IF a.x = "" /\ b.x = "" /\ op \in {"+", "-", "*"} THEN
       CASE op = "+" -> N(a.n + b.n) [] op = "-" -> N(a.n - b.n)
         [] op = "*" -> IF a.n * b.n = 0 /\ ((a.n < 0) # (b.n < 0)) /\ (a.n # 0 \/ b.n # 0) THEN Sp("nzero") ELSE N(a.n * b.n)
  ELSE IF op = "/" THEN
       IF IsZero(b) THEN (IF IsZero(a) THEN Sp("nan")
                          ELSE IF a.x \in {"", "inf", "ninf"} THEN (IF Sign(a) * Sign(b) > 0 THEN Sp("inf") ELSE Sp("ninf")) ELSE Sp("nan"))
       ELSE IF a.x = "" /\ b.x = "" THEN
            (LET abs(x) == IF x < 0 THEN 0 - x ELSE x
                 q == abs(a.n) \div abs(b.n)
             IN IF abs(a.n) % abs(b.n) # 0 THEN Frac
                ELSE IF a.n = 0 THEN (IF b.n < 0 THEN Sp("nzero") ELSE N(0))
                ELSE IF (a.n < 0) # (b.n < 0) THEN N(0 - q) ELSE N(q))
       ELSE IF a.x \in {"inf", "ninf"} /\ b.x \in {"inf", "ninf"} THEN Sp("nan")
       ELSE IF a.x \in {"inf", "ninf"} THEN (IF Sign(a) * Sign(b) > 0 THEN Sp("inf") ELSE Sp("ninf"))
       ELSE IF b.x \in {"inf", "ninf"} THEN (IF Sign(a) * Sign(b) > 0 THEN N(0) ELSE Sp("nzero"))
       ELSE Poison
  ELSE Poison      \* mixed symbolic addition/multiplication: not generated

\* ---------------------------------------------------------------------------
\* Program access
P == Progs[pi]
Node(n) == P.nodes[n]
Kid(n, i) == Node(n).kids[i]
NKids(n) == Len(Node(n).kids)

\* ---------------------------------------------------------------------------
\* Heap objects (uniform record)
Obj(k, name, xs, fn, env, cls, ks, mk, mv) ==
  [k |-> k, name |-> name, xs |-> xs, fn |-> fn, env |-> env, cls |-> cls, ks |-> ks, mk |-> mk, mv |-> mv,
   sk |-> <<>>, sv |-> <<>>]
EmptyObj == Obj("", "", <<>>, 0, 0, 0, <<>>, <<>>, <<>>)

\* builtin classes live at fixed heap ids
BuiltinClasses == <<"Object", "Error", "RuntimeError", "TypeError", "IndexError", "PropertyError", "ValueError",
                    "KeyError", "ImportError", "ExportError", "SyntaxError", "FormatError", "ChannelError",
                    "MethodNotFoundError", "DeadLockError", "List", "Tuple", "Map", "Number", "String", "Iter">>
ClassId(name) == CHOOSE i \in 1 .. Len(BuiltinClasses) : BuiltinClasses[i] = name
ErrFields == <<"message", "backTrace", "inner">>
BuiltinHeap == [i \in 1 .. Len(BuiltinClasses) |->
                  Obj("class", BuiltinClasses[i], <<>>, 0, 0,
                      IF i = 1 THEN 0 ELSE IF i = 2 \/ i > 15 THEN 1 ELSE 2,
                      IF i = 1 \/ i > 15 THEN <<>> ELSE ErrFields, <<>>, <<>>)]
Natives == <<"print", "exit">>
\* root environment: builtin classes and native functions
RootNames == BuiltinClasses \o Natives
RootVals == [i \in 1 .. Len(RootNames) |->
               IF i <= Len(BuiltinClasses) THEN R(i, "class") ELSE V("native", 0, RootNames[i], <<>>)]

Frame(f, n, i, vs, e) == [f |-> f, n |-> n, i |-> i, vs |-> vs, e |-> e]

Init ==
  /\ pi \in 1 .. Len(Progs)
  /\ M = [ctl |-> [m |-> "ex", n |-> Progs[pi].root, v |-> Nil],
          env |-> 2,
          envs |-> <<[p |-> 0, names |-> RootNames, locs |-> [i \in 1 .. Len(RootNames) |-> i]],
                     [p |-> 1, names |-> <<>>, locs |-> <<>>]>>,
          store |-> RootVals,
          heap |-> BuiltinHeap,
          k |-> <<>>,
          out |-> <<>>,
          st |-> "run",
          mods |-> ("$main" :> [env |-> 2, st |-> "done", ex |-> <<>>]),   \* module name -> environment, load state, exported names
          cur |-> "$main",     \* module whose body is running
          tb |-> <<>>,        \* activations at the latest raise, innermost first: [n |-> node where it stands, f |-> function name]
          steps |-> 0]

\* ---------------------------------------------------------------------------
\* Small helpers over the machine record (all pure)
Ctl(m, n, v) == [m |-> m, n |-> n, v |-> v]
Ev(m, n) == [m EXCEPT !.ctl = Ctl("ev", n, Nil)]
Ex(m, n) == [m EXCEPT !.ctl = Ctl("ex", n, Nil)]
Val(m, v) == [m EXCEPT !.ctl = Ctl("val", 0, v)]
Nxt(m) == [m EXCEPT !.ctl = Ctl("nxt", 0, Nil)]
PushK(m, fr) == [m EXCEPT !.k = Append(@, fr)]
PopK(m) == [m EXCEPT !.k = SubSeq(@, 1, Len(@) - 1)]
TopK(m) == m.k[Len(m.k)]

RECURSIVE FindIdx(_, _, _)
FindIdx(names, name, i) == IF i = 0 THEN 0 ELSE IF names[i] = name THEN i ELSE FindIdx(names, name, i - 1)
IndexOf(names, name) == FindIdx(names, name, Len(names))      \* last declaration wins, 0 = absent

RECURSIVE Lookup(_, _, _)
Lookup(m, e, name) ==
  IF e = 0 THEN 0
  ELSE LET i == IndexOf(m.envs[e].names, name)
       IN IF i # 0 THEN m.envs[e].locs[i] ELSE Lookup(m, m.envs[e].p, name)

\* declare a fresh variable in environment e
Declare(m, e, name, v) ==
  LET loc == Len(m.store) + 1
  IN [m EXCEPT !.store = Append(@, v),
               !.envs[e].names = Append(@, name),
               !.envs[e].locs = Append(@, loc)]

NewEnv(m, parent) == [m EXCEPT !.envs = Append(@, [p |-> parent, names |-> <<>>, locs |-> <<>>])]
LastEnv(m) == Len(m.envs)

Alloc(m, obj) == [m EXCEPT !.heap = Append(@, obj)]
LastObj(m) == Len(m.heap)

\* text helpers (ASCII)

\* The active calls, innermost first.  Every "call" frame of the continuation is one activation boundary: the
\* callee stands at `site` (or at the call it made), its caller stands at the call node.
\* natives that run callbacks on a call frame of their own: while one of them is pulling from its source or running
\* its callback, that frame is an activation like any other ("native:0 in each()")
NativeOfFrame == [x \in {"c.each", "c.each2", "c.reduce", "c.reduce2", "c.all", "c.all2", "c.any", "c.any2", "c.sort", "c.skip"} |->
                    CASE x \in {"c.each", "c.each2"} -> "each" [] x \in {"c.reduce", "c.reduce2"} -> "reduce"
                      [] x \in {"c.all", "c.all2"} -> "all" [] x \in {"c.any", "c.any2"} -> "any"
                      [] x = "c.sort" -> "sort" [] OTHER -> "skip"]

RECURSIVE ActsFrom(_, _, _)
ActsFrom(m, i, site) ==
  \* i scans the continuation from the top; site is where the activation currently being described stands
  IF i = 0 THEN <<[n |-> site, f |-> "script"]>>
  ELSE IF m.k[i].f = "call"
       THEN <<[n |-> site, f |-> m.heap[m.k[i].i].name]>> \o ActsFrom(m, i - 1, m.k[i].n)
       ELSE IF m.k[i].f \in DOMAIN NativeOfFrame
       THEN <<[n |-> 0, f |-> NativeOfFrame[m.k[i].f]]>> \o ActsFrom(m, i - 1, site)
       ELSE ActsFrom(m, i - 1, site)
Acts(m, site) == ActsFrom(m, Len(m.k), site)

RECURSIVE CallsBelow(_, _)
CallsBelow(m, i) == IF i = 0 THEN 0 ELSE (IF m.k[i].f = "call" \/ m.k[i].f \in DOMAIN NativeOfFrame THEN 1 ELSE 0) + CallsBelow(m, i - 1)

\* a back trace entry as text "@<node>:<function>"; the driver turns it into "path:line in function()"
\* function names are TLA+ strings; the programs carry their code points in P.names (name -> cp)
FnameCp(name) == IF name \in DOMAIN P.names THEN P.names[name] ELSE <<63>>

\* raise a runtime error of a builtin class; `site` is the node being evaluated
ErrInst(m, cls, site) ==
  Alloc(m, Obj("inst", "", <<S(<<0>>), Nil, Nil>>, site, 0, ClassId(cls), <<>>, <<>>, <<>>))   \* message: any text (code point 0 = wildcard)
Throw(m, cls, site) ==
  LET m1 == ErrInst(m, cls, site) IN [m1 EXCEPT !.ctl = Ctl("thr", site, R(LastObj(m1), "inst")), !.tb = Acts(m, site)]

\* an error raised inside a native that runs with its own call frame (index get/set): that frame is listed too
ThrowN(m, cls, site, nat) ==
  LET m1 == Throw(m, cls, site) IN [m1 EXCEPT !.tb = <<[n |-> 0, f |-> nat]>> \o @]

RECURSIVE IsSubclass(_, _, _)
IsSubclass(m, c, anc) == IF c = 0 THEN FALSE ELSE IF c = anc THEN TRUE ELSE IsSubclass(m, m.heap[c].cls, anc)

\* method lookup along the inheritance chain (methods are copied at class creation in the VM; the
\* observable meaning is "most derived definition")
RECURSIVE FindMethod(_, _, _)
FindMethod(m, c, name) ==
  IF c = 0 THEN Nil
  ELSE LET i == IndexOf(m.heap[c].mk, name)
       IN IF i # 0 THEN m.heap[c].mv[i] ELSE FindMethod(m, m.heap[c].cls, name)

\* ---------------------------------------------------------------------------
\* Rendering (print / str)
RECURSIVE ShowIn(_, _), ShowList(_, _, _), Show(_, _)
ShowList(m, xs, i) ==
  IF i > Len(xs) THEN <<>>
  ELSE (IF i > 1 THEN <<44, 32>> ELSE <<>>) \o ShowIn(m, xs[i]) \o ShowList(m, xs, i + 1)
Show(m, v) ==
  CASE v.t = "nil" -> CpNil
    [] v.t = "bool" -> IF v.n = 1 THEN CpTrue ELSE CpFalse
    [] v.t = "num" -> NumCp(v)
    [] v.t = "str" -> v.cp
    [] v.t = "ref" /\ v.x = "list" -> <<91>> \o ShowList(m, m.heap[v.n].xs, 1) \o <<93>>
    [] v.t = "ref" /\ v.x = "tuple" -> <<40>> \o ShowList(m, m.heap[v.n].xs, 1) \o <<41>>
    [] v.t = "ref" /\ v.x = "map" ->
         LET xs == m.heap[v.n].xs IN
           IF xs = <<>> THEN <<123, 125>>
           ELSE IF Len(xs) = 2 THEN <<123, 32>> \o ShowIn(m, xs[1]) \o <<58, 32>> \o ShowIn(m, xs[2]) \o <<32, 125>>
           ELSE <<0>>                          \* several entries: the order is not part of the contract
    [] OTHER -> CpOpaque
ShowIn(m, v) == IF v.t = "str" THEN <<39>> \o v.cp \o <<39>> ELSE Show(m, v)

RECURSIVE JoinSp(_, _, _)
JoinSp(m, vs, i) == IF i > Len(vs) THEN <<>>
                    ELSE (IF i > 1 THEN <<32>> ELSE <<>>) \o Show(m, vs[i]) \o JoinSp(m, vs, i + 1)

\* a string whose text the model does not know exactly (it contains the wildcard code point 0: the digits of a
\* non-integer, a map printed with several entries; or "<?>": an address).  It can be printed and concatenated,
\* everything that looks inside it is undecided
WildStr(v) == v.t = "str" /\ \E i \in 1 .. Len(v.cp) :
                 v.cp[i] = 0 \/ (i + 2 <= Len(v.cp) /\ v.cp[i] = 60 /\ v.cp[i + 1] = 63 /\ v.cp[i + 2] = 62)

\* ---------------------------------------------------------------------------
\* Binary operators
BinOp(m, op, a, b, site) ==
  CASE op \in {"<", "<=", ">", ">=", "==", "!="} /\ IsStr(a) /\ IsStr(b) /\ (WildStr(a) \/ WildStr(b)) -> Val(m, Poison)
    [] op \in {"+"} ->
         IF IsNum(a) /\ IsNum(b) THEN Val(m, Arith(op, a, b))
         ELSE IF IsStr(a) /\ IsStr(b) THEN Val(m, S(a.cp \o b.cp))
         ELSE Throw(m, "RuntimeError", site)
    [] op \in {"-", "*", "/"} ->
         IF IsNum(a) /\ IsNum(b) THEN Val(m, Arith(op, a, b)) ELSE Throw(m, "RuntimeError", site)
    [] op \in {"<", "<=", ">", ">=", "==", "!="} /\ IsNum(a) /\ IsNum(b) /\ (a.x = "frac" \/ b.x = "frac") -> Val(m, Poison)
    [] op \in {"<", "<=", ">", ">="} ->
         IF (IsNum(a) /\ IsNum(b)) \/ (IsStr(a) /\ IsStr(b)) THEN
           LET c == IF IsNum(a) THEN NumCmp(a, b) ELSE CpCmp(a.cp, b.cp)
           IN Val(m, B(CASE op = "<" -> c = "lt" [] op = "<=" -> c \in {"lt", "eq"}
                         [] op = ">" -> c = "gt" [] op = ">=" -> c \in {"gt", "eq"}))
         ELSE Throw(m, "RuntimeError", site)
    [] op = "==" -> Val(m, B(ValEq(a, b)))
    [] op = "!=" -> Val(m, B(~ValEq(a, b)))

\* ---------------------------------------------------------------------------
\* Calling.  callee value, argument values, call-site node
FunParams(fn) == Node(fn).n                 \* number of parameters; kids = params ++ <<body>>
FunBody(fn) == Kid(fn, NKids(fn))

RECURSIVE BindParams(_, _, _, _, _)
BindParams(m, e, fn, args, i) ==
  IF i > FunParams(fn) THEN m
  ELSE BindParams(Declare(m, e, Node(Kid(fn, i)).s, args[i]), e, fn, args, i + 1)

\* enter closure `c` (heap id) with receiver `self` (Nil if none)
Enter(m, c, self, args, site) ==
  LET o == m.heap[c]
      fn == o.fn
  IN IF Len(args) # FunParams(fn) THEN Throw(m, "RuntimeError", site)
     ELSE LET m1 == NewEnv(m, o.env)
              e == LastEnv(m1)
              m2 == IF Node(fn).s2 \in {"method", "init", "static"} THEN Declare(m1, e, "self", self) ELSE m1
              m3 == BindParams(m2, e, fn, args, 1)
              m4 == PushK(m3, Frame("call", site, c, <<self>>, m.env))
              body == FunBody(fn)
          IN IF Node(body).k = "block"
             THEN [Ex(m4, body) EXCEPT !.env = e]
             ELSE [PushK(m4, Frame("exprbody", body, 0, <<>>, e)) EXCEPT !.env = e, !.ctl = Ctl("ev", body, Nil)]

RECURSIVE Pull(_, _, _)
Call(m, callee, args, site) ==
  CASE callee.t = "native" /\ callee.x = "print" ->
         IF Len(args) = 0 THEN Throw(m, "RuntimeError", site)      \* (the real VM panics here: D17; not generated)
         ELSE Val([m EXCEPT !.out = Append(@, JoinSp(m, args, 1))], Nil)
    [] callee.t = "native" /\ callee.x = "str" ->
         IF Len(args) # 1 THEN Throw(m, "RuntimeError", site) ELSE Val(m, S(Show(m, args[1])))
    [] callee.t = "native" /\ callee.x \in {"List.collect", "Tuple.collect"} ->
         IF Len(args) # 1 THEN Throw(m, "RuntimeError", site)
         ELSE IF ~(args[1].t = "ref" /\ args[1].x = "iter") THEN Val(m, Poison)       \* (the real natives crash here: D6; not generated)
         ELSE Pull(PushK(m, Frame(IF callee.x = "List.collect" THEN "c.list" ELSE "c.tuple", site, args[1].n, <<>>, m.env)), args[1].n, site)
    [] callee.t = "native" /\ callee.x = "exit" ->
         IF Len(args) > 1 \/ (Len(args) = 1 /\ ~IsInt(args[1])) THEN Throw(m, "RuntimeError", site)
         ELSE [m EXCEPT !.st = "exit:" \o ToString(IF Len(args) = 0 THEN 0 ELSE args[1].n), !.ctl = Ctl("halt", 0, Nil)]
    [] callee.t = "ref" /\ callee.x = "closure" -> Enter(m, callee.n, Nil, args, site)
    [] callee.t = "ref" /\ callee.x = "bound" ->
         LET b == m.heap[callee.n] IN
           IF b.xs[2].x = "closure" THEN Enter(m, b.xs[2].n, b.xs[1], args, site) ELSE Throw(m, "RuntimeError", site)
    [] callee.t = "ref" /\ callee.x = "class" ->
         LET c == callee.n
             isErr == IsSubclass(m, c, ClassId("Error"))
             init == FindMethod(m, c, "init")
             nfields == Len(m.heap[c].ks)
             m1 == Alloc(m, Obj("inst", "", [i \in 1 .. nfields |-> Nil], 0, 0, c, <<>>, <<>>, <<>>))
             inst == R(LastObj(m1), "inst")
         IN IF init.t = "ref" THEN
              \* run the initialiser; the instance is the result of the call whatever init returns
              Enter(m1, init.n, inst, args, site)
            ELSE IF isErr THEN
              \* the native Error init: message (a string), optional inner
              IF Len(args) \notin {1, 2} \/ ~IsStr(args[1]) THEN Throw(m, "RuntimeError", site)
              ELSE Val([m1 EXCEPT !.heap[LastObj(m1)].xs = <<args[1], Nil, IF Len(args) = 2 THEN args[2] ELSE Nil>>], inst)
            ELSE IF Len(args) # 0 THEN Throw(m, "RuntimeError", site)
            ELSE Val(m1, inst)
    [] OTHER -> Throw(m, "RuntimeError", site)

\* ---------------------------------------------------------------------------
\* Built-in collections, strings and iterators (C10, C11).  Lists, tuples and maps are heap objects with an
\* identity; a map is a sequence of key/value pairs in insertion order (iteration order of real maps is not part
\* of the contract: generated programs never depend on it); strings are sequences of code points.
MkObj(m, k, xs) == Alloc(m, Obj(k, "", xs, 0, 0, 0, <<>>, <<>>, <<>>))
ValNew(m, k, xs) == LET m1 == MkObj(m, k, xs) IN Val(m1, R(LastObj(m1), k))

RECURSIVE PosOfVal(_, _, _)
PosOfVal(xs, v, i) == IF i > Len(xs) THEN 0 ELSE IF ValEq(xs[i], v) THEN i ELSE PosOfVal(xs, v, i + 1)

\* map entries: xs = <<k1, v1, k2, v2, ...>>
RECURSIVE KeyPos(_, _, _)
KeyPos(xs, key, i) == IF i > Len(xs) THEN 0 ELSE IF ValEq(xs[i], key) THEN i ELSE KeyPos(xs, key, i + 2)

\* slice bounds as the natives compute them: negative counts from the end, everything saturates
SliceIdx(len, v) == IF v.n >= 0 THEN (IF v.n > len THEN len ELSE v.n) ELSE (IF len + v.n < 0 THEN 0 ELSE len + v.n)
SliceOf(xs, a, b) == IF a < b THEN SubSeq(xs, a + 1, b) ELSE <<>>

Upper(c) == IF c >= 97 /\ c <= 122 THEN c - 32 ELSE IF c = 233 THEN 201 ELSE c
Lower(c) == IF c >= 65 /\ c <= 90 THEN c + 32 ELSE IF c = 201 THEN 233 ELSE c
IsSpace(c) == c \in {32, 9, 10, 13}
RECURSIVE TrimL(_), TrimR(_)
TrimL(cp) == IF cp # <<>> /\ IsSpace(Head(cp)) THEN TrimL(Tail(cp)) ELSE cp
TrimR(cp) == IF cp # <<>> /\ IsSpace(cp[Len(cp)]) THEN TrimR(SubSeq(cp, 1, Len(cp) - 1)) ELSE cp
IsPrefix(p, s) == Len(p) <= Len(s) /\ SubSeq(s, 1, Len(p)) = p
RECURSIVE HasSub(_, _)
HasSub(s, p) == IF IsPrefix(p, s) THEN TRUE ELSE IF s = <<>> THEN FALSE ELSE HasSub(Tail(s), p)
\* split on a non-empty separator: the pieces, in order
RECURSIVE SplitCp(_, _, _)
SplitCp(s, sep, acc) ==
  IF s = <<>> THEN <<acc>>
  ELSE IF IsPrefix(sep, s) THEN <<acc>> \o SplitCp(SubSeq(s, Len(sep) + 1, Len(s)), sep, <<>>)
  ELSE SplitCp(Tail(s), sep, Append(acc, Head(s)))

\* ----- iterators: heap object k = "iter", name = kind, xs[1] = current, further xs = parameters,
\*       fn = position / count, cls = source iterator (heap id)
MkIter(m, kind, params, src) == Alloc(m, Obj("iter", kind, <<Nil>> \o params, 0, 0, src, <<>>, <<>>, <<>>))
RECURSIVE IterCur(_, _)
IterCur(m, it) == IF m.heap[it].name \in {"take", "skip"} THEN IterCur(m, m.heap[it].cls) ELSE m.heap[it].xs[1]
SetCur(m, it, v) == [m EXCEPT !.heap[it].xs[1] = v]

\* iterator for a value (what `for` and the adaptors do first): lists, tuples, strings iterate their elements,
\* an iterator is its own iterator
IterOf(m, v, site) ==
  IF v.t = "ref" /\ v.x = "iter" THEN Val(m, v)
  ELSE IF v.t = "ref" /\ v.x \in {"list", "tuple", "map"} THEN
         LET m1 == MkIter(m, IF v.x = "map" THEN "entries" ELSE v.x, <<v>>, 0) IN Val(m1, R(LastObj(m1), "iter"))
  ELSE IF v.t = "str" THEN
         LET m1 == MkIter(m, "pieces", [i \in 1 .. Len(v.cp) |-> S(<<v.cp[i]>>)], 0) IN Val(m1, R(LastObj(m1), "iter"))
  ELSE Throw(m, "PropertyError", site)

\* advance iterator `it`: delivers B(has) to the continuation, possibly after running callbacks
Pull(m, it, site) ==
  LET o == m.heap[it] kind == o.name IN
  CASE kind \in {"list", "tuple"} ->
         LET src == m.heap[o.xs[2].n].xs IN
           IF o.fn < Len(src) THEN Val([SetCur(m, it, src[o.fn + 1]) EXCEPT !.heap[it].fn = @ + 1], B(TRUE))
           ELSE Val(SetCur(m, it, Nil), B(FALSE))
    [] kind = "entries" ->
         LET src == m.heap[o.xs[2].n].xs IN
           IF 2 * o.fn < Len(src)
           THEN LET m1 == MkObj(m, "list", <<src[2 * o.fn + 1], src[2 * o.fn + 2]>>)
                IN Val([SetCur(m1, it, R(LastObj(m1), "list")) EXCEPT !.heap[it].fn = @ + 1], B(TRUE))
           ELSE Val(SetCur(m, it, Nil), B(FALSE))
    [] kind = "pieces" ->
         IF o.fn + 1 < Len(o.xs) THEN Val([SetCur(m, it, o.xs[o.fn + 2]) EXCEPT !.heap[it].fn = @ + 1], B(TRUE))
         ELSE Val(SetCur(m, it, Nil), B(FALSE))
    [] kind = "times" ->
         IF o.fn < o.xs[2].n THEN Val([SetCur(m, it, N(o.fn)) EXCEPT !.heap[it].fn = @ + 1], B(TRUE))
         ELSE Val(m, B(FALSE))
    [] kind = "until" ->
         \* xs = <<cur, start, end, stride>>, fn = elements produced so far: start + k * stride while it is below end
         LET e == o.xs[2].n + o.fn * o.xs[4].n IN
           IF e < o.xs[3].n THEN Val([SetCur(m, it, N(e)) EXCEPT !.heap[it].fn = @ + 1], B(TRUE))
           ELSE Val(m, B(FALSE))
    [] kind \in {"map", "filter"} -> Pull(PushK(m, Frame("p." \o kind, site, it, <<>>, m.env)), o.cls, site)
    [] kind = "take" ->
         IF o.fn >= o.xs[2].n THEN Val(m, B(FALSE))                          \* the limit is tested before the source is touched
         ELSE Pull(PushK(m, Frame("p.take", site, it, <<>>, m.env)), o.cls, site)
    [] kind = "skip" -> Pull(m, o.cls, site)
    [] kind = "zip" -> Pull(PushK(m, Frame("p.zip", site, it, <<>>, m.env)), o.xs[2].n, site)
    [] kind = "chain" ->
         IF o.fn + 2 > Len(o.xs) THEN Val(m, B(FALSE))
         ELSE Pull(PushK(m, Frame("p.chain", site, it, <<>>, m.env)), o.xs[o.fn + 2].n, site)
    [] OTHER -> [m EXCEPT !.st = "model-error:pull:" \o kind, !.ctl = Ctl("halt", 0, Nil)]

\* list.sort(cmp): a stable sort of a copy, written as an insertion sort whose comparisons are calls of cmp.
\* The frame keeps vs = <<cmp, N(j)>> \o done \o <<x>> \o todo and i = Len(done): x is being placed into the
\* sorted prefix done, j is the position it is compared with next.  Only the result (and the fact that an
\* error raised by cmp, or a result that is not a number, ends the sort) is meant: the order of comparisons is
\* the implementation's own, so generated comparators are pure and consistent.
SortStep(m, site, cmp, done, j, x, todo, env) ==
  Call(PushK(m, Frame("c.sort", site, Len(done), <<cmp, N(j)>> \o done \o <<x>> \o todo, env)), cmp, <<done[j], x>>, site)

SortFrame(m0, fr, v) ==
  LET cmp == fr.vs[1] j == fr.vs[2].n d == fr.i site == fr.n
      done == SubSeq(fr.vs, 3, 2 + d) x == fr.vs[3 + d] todo == SubSeq(fr.vs, 4 + d, Len(fr.vs))
      gt == v.x = "inf" \/ (v.x = "" /\ v.n > 0) IN
  IF ~IsNum(v) \/ v.x = "nan" THEN Throw(m0, "TypeError", site)
  ELSE IF v.x = "frac" THEN Val(m0, Poison)
  ELSE IF gt /\ j > 1 THEN SortStep(m0, site, cmp, done, j - 1, x, todo, fr.e)
  ELSE LET pos == IF gt THEN 0 ELSE j                \* x goes right after position pos
           nd == SubSeq(done, 1, pos) \o <<x>> \o SubSeq(done, pos + 1, d)
       IN IF todo = <<>> THEN ValNew(m0, "list", nd)
          ELSE SortStep(m0, site, cmp, nd, Len(nd), Head(todo), Tail(todo), fr.e)

\* a value (the has-next boolean, or a callback result) arrives at an iterator frame
IterFrame(m0, fr, v) ==
  LET f == fr.f it == fr.i site == fr.n o == m0.heap[it] has == Truthy(v) IN
  CASE f = "p.map" ->
         IF has THEN Call(PushK(m0, Frame("p.map2", site, it, <<>>, fr.e)), o.xs[2], <<IterCur(m0, o.cls)>>, site)
         ELSE Val(m0, B(FALSE))
    [] f = "p.map2" -> Val(SetCur(m0, it, v), B(TRUE))
    [] f = "p.filter" ->
         IF has THEN Call(PushK(m0, Frame("p.filter2", site, it, <<>>, fr.e)), o.xs[2], <<IterCur(m0, o.cls)>>, site)
         ELSE Val(m0, B(FALSE))
    [] f = "p.filter2" ->
         IF has THEN Val(SetCur(m0, it, IterCur(m0, o.cls)), B(TRUE))
         ELSE Pull(PushK(m0, Frame("p.filter", site, it, <<>>, fr.e)), o.cls, site)
    [] f = "p.take" -> IF has THEN Val([m0 EXCEPT !.heap[it].fn = @ + 1], B(TRUE)) ELSE Val(m0, B(FALSE))
    [] f = "p.zip" ->
         \* fr.vs collects the currents; o.xs[2..] are the zipped iterators, visited left to right
         IF ~has THEN Val(m0, B(FALSE))
         ELSE LET k == Len(fr.vs) + 2
                  vs == Append(fr.vs, IterCur(m0, o.xs[k].n))
              IN IF k < Len(o.xs) THEN Pull(PushK(m0, [fr EXCEPT !.vs = vs]), o.xs[k + 1].n, site)
                 ELSE LET m1 == MkObj(m0, "tuple", vs) IN Val(SetCur(m1, it, R(LastObj(m1), "tuple")), B(TRUE))
    [] f = "p.chain" ->
         IF has THEN Val(SetCur(m0, it, IterCur(m0, o.xs[o.fn + 2].n)), B(TRUE))
         ELSE Pull([m0 EXCEPT !.heap[it].fn = @ + 1], it, site)
    \* ---- consumers
    [] f = "c.next" -> Val(m0, B(has))
    [] f = "c.first" -> Val(m0, IF has THEN IterCur(m0, it) ELSE Nil)
    [] f = "c.each" ->
         IF has THEN Call(PushK(m0, Frame("c.each2", site, it, fr.vs, fr.e)), fr.vs[1], <<IterCur(m0, it)>>, site)
         ELSE Val(m0, Nil)
    [] f = "c.each2" -> Pull(PushK(m0, Frame("c.each", site, it, fr.vs, fr.e)), it, site)
    [] f = "c.reduce" ->
         IF has THEN Call(PushK(m0, Frame("c.reduce2", site, it, fr.vs, fr.e)), fr.vs[1], <<fr.vs[2], IterCur(m0, it)>>, site)
         ELSE Val(m0, fr.vs[2])
    [] f = "c.reduce2" -> Pull(PushK(m0, Frame("c.reduce", site, it, <<fr.vs[1], v>>, fr.e)), it, site)
    [] f \in {"c.all", "c.any"} ->
         IF has THEN Call(PushK(m0, Frame(f \o "2", site, it, fr.vs, fr.e)), fr.vs[1], <<IterCur(m0, it)>>, site)
         ELSE Val(m0, B(f = "c.all"))
    [] f = "c.all2" -> IF has THEN Pull(PushK(m0, Frame("c.all", site, it, fr.vs, fr.e)), it, site) ELSE Val(m0, B(FALSE))
    [] f = "c.any2" -> IF has THEN Val(m0, B(TRUE)) ELSE Pull(PushK(m0, Frame("c.any", site, it, fr.vs, fr.e)), it, site)
    [] f = "c.last" ->
         IF has THEN Pull(PushK(m0, Frame("c.last", site, it, <<IterCur(m0, it)>>, fr.e)), it, site) ELSE Val(m0, fr.vs[1])
    [] f = "c.len" ->
         IF has THEN Pull(PushK(m0, Frame("c.len", site, it, <<N(fr.vs[1].n + 1)>>, fr.e)), it, site) ELSE Val(m0, fr.vs[1])
    [] f \in {"c.list", "c.tuple"} ->
         IF has THEN Pull(PushK(m0, [fr EXCEPT !.vs = Append(@, IterCur(m0, it))]), it, site)
         ELSE ValNew(m0, IF f = "c.list" THEN "list" ELSE "tuple", fr.vs)
    [] f = "c.skip" ->
         \* skip(n) advances its source while it is created
         IF has /\ fr.vs[2].n + 1 < fr.vs[1].n
         THEN Pull(PushK(m0, Frame("c.skip", site, it, <<fr.vs[1], N(fr.vs[2].n + 1)>>, fr.e)), it, site)
         ELSE LET m1 == MkIter(m0, "skip", <<fr.vs[1]>>, it) IN Val(m1, R(LastObj(m1), "iter"))
    [] OTHER -> [m0 EXCEPT !.st = "model-error:iterframe:" \o f, !.ctl = Ctl("halt", 0, Nil)]

\* methods of iterators
IterInvoke(m, itv, name, args, site) ==
  LET it == itv.n n == Len(args) IN
  CASE name = "iter" /\ n = 0 -> Val(m, itv)
    [] name = "current" /\ n = 0 -> Val(m, IterCur(m, it))
    [] name = "next" /\ n = 0 -> Pull(PushK(m, Frame("c.next", site, it, <<>>, m.env)), it, site)
    [] name = "first" /\ n = 0 -> Pull(PushK(m, Frame("c.first", site, it, <<>>, m.env)), it, site)
    [] name = "last" /\ n = 0 -> Pull(PushK(m, Frame("c.last", site, it, <<Nil>>, m.env)), it, site)
    [] name = "list" /\ n = 0 -> Pull(PushK(m, Frame("c.list", site, it, <<>>, m.env)), it, site)
    [] name \in {"map", "filter"} /\ n = 1 ->
         IF ~(args[1].t = "ref" /\ args[1].x \in {"closure", "bound"}) THEN Throw(m, "RuntimeError", site)
         ELSE LET m1 == MkIter(m, name, <<args[1]>>, it) IN Val(m1, R(LastObj(m1), "iter"))
    [] name = "take" /\ n = 1 ->
         IF ~IsInt(args[1]) THEN Throw(m, IF IsNum(args[1]) THEN "TypeError" ELSE "RuntimeError", site)
         ELSE IF args[1].n < 0 THEN Throw(m, "TypeError", site)
         ELSE LET m1 == MkIter(m, "take", <<args[1]>>, it) IN Val(m1, R(LastObj(m1), "iter"))
    [] name = "skip" /\ n = 1 ->
         IF ~IsInt(args[1]) THEN Throw(m, IF IsNum(args[1]) THEN "TypeError" ELSE "RuntimeError", site)
         ELSE IF args[1].n < 0 THEN Throw(m, "TypeError", site)
         ELSE IF args[1].n = 0 THEN LET m1 == MkIter(m, "skip", <<args[1]>>, it) IN Val(m1, R(LastObj(m1), "iter"))
         ELSE Pull(PushK(m, Frame("c.skip", site, it, <<args[1], N(0)>>, m.env)), it, site)
    [] name \in {"each", "all", "any"} /\ n = 1 ->
         IF ~(args[1].t = "ref" /\ args[1].x \in {"closure", "bound"}) THEN Throw(m, "RuntimeError", site)
         ELSE Pull(PushK(m, Frame("c." \o name, site, it, <<args[1]>>, m.env)), it, site)
    [] name = "reduce" /\ n = 2 ->
         IF ~(args[2].t = "ref" /\ args[2].x \in {"closure", "bound"}) THEN Throw(m, "RuntimeError", site)
         ELSE Pull(PushK(m, Frame("c.reduce", site, it, <<args[2], args[1]>>, m.env)), it, site)
    [] name = "into" /\ n = 1 -> Call(m, args[1], <<itv>>, site)
    [] name \in {"zip", "chain"} /\ n >= 1 ->
         IF \E i \in 1 .. n : ~(args[i].t = "ref" /\ args[i].x = "iter") THEN Throw(m, "RuntimeError", site)
         ELSE LET m1 == MkIter(m, name, <<itv>> \o args, 0) IN Val(m1, R(LastObj(m1), "iter"))
    [] OTHER -> Throw(m, IF n = 0 /\ name \notin {"map", "filter", "take", "skip", "each", "all", "any", "reduce", "into", "zip", "chain"}
                         THEN "PropertyError" ELSE "RuntimeError", site)

\* methods of lists, tuples, maps, strings, numbers (no callbacks)
SeqInvoke(m, obj, name, args, site) ==
  LET xs == m.heap[obj.n].xs len == Len(xs) n == Len(args) isList == obj.x = "list" IN
  CASE name = "len" /\ n = 0 -> Val(m, N(len))
    [] name = "push" /\ isList /\ n >= 1 -> Val([m EXCEPT !.heap[obj.n].xs = @ \o args], Nil)
    [] name = "pop" /\ isList /\ n = 0 ->
         IF len = 0 THEN Val(m, Nil) ELSE Val([m EXCEPT !.heap[obj.n].xs = SubSeq(@, 1, len - 1)], xs[len])
    [] name = "insert" /\ isList /\ n = 2 ->
         IF ~IsNum(args[1]) THEN Throw(m, "RuntimeError", site)
         ELSE IF args[1].x = "frac" THEN Throw(m, "IndexError", site)
         ELSE IF ~IsInt(args[1]) THEN Val(m, Poison)
         ELSE IF args[1].n < 0 \/ args[1].n > len THEN Throw(m, "IndexError", site)
         ELSE Val([m EXCEPT !.heap[obj.n].xs = SubSeq(xs, 1, args[1].n) \o <<args[2]>> \o SubSeq(xs, args[1].n + 1, len)], Nil)
    [] name = "remove" /\ isList /\ n = 1 ->
         IF ~IsNum(args[1]) THEN Throw(m, "RuntimeError", site)
         ELSE IF args[1].x = "frac" THEN Throw(m, "IndexError", site)
         ELSE IF ~IsInt(args[1]) THEN Val(m, Poison)
         ELSE IF args[1].n < 0 \/ args[1].n >= len THEN Throw(m, "IndexError", site)
         ELSE Val([m EXCEPT !.heap[obj.n].xs = SubSeq(xs, 1, args[1].n) \o SubSeq(xs, args[1].n + 2, len)], xs[args[1].n + 1])
    [] name = "clear" /\ isList /\ n = 0 -> Val([m EXCEPT !.heap[obj.n].xs = <<>>], Nil)
    [] name = "has" /\ n = 1 -> Val(m, B(PosOfVal(xs, args[1], 1) # 0))
    [] name = "index" /\ n = 1 -> LET p == PosOfVal(xs, args[1], 1) IN Val(m, IF p = 0 THEN Nil ELSE N(p - 1))
    [] name = "rev" /\ isList /\ n = 0 -> ValNew(m, "list", [i \in 1 .. len |-> xs[len + 1 - i]])
    [] name = "sort" /\ isList /\ n = 1 ->
         IF ~(args[1].t = "ref" /\ args[1].x \in {"closure", "bound"}) THEN Throw(m, "RuntimeError", site)
         ELSE IF len <= 1 THEN ValNew(m, "list", xs)
         ELSE SortStep(m, site, args[1], <<xs[1]>>, 1, xs[2], SubSeq(xs, 3, len), m.env)
    [] name = "slice" /\ n <= 2 ->
         IF \E i \in 1 .. n : ~IsNum(args[i]) THEN Throw(m, "RuntimeError", site)
         ELSE IF \E i \in 1 .. n : args[i].x = "frac" THEN Throw(m, "IndexError", site)
         ELSE IF \E i \in 1 .. n : ~IsInt(args[i]) THEN Val(m, Poison)
         ELSE LET a == IF n >= 1 THEN SliceIdx(len, args[1]) ELSE 0
                  b == IF n = 2 THEN SliceIdx(len, args[2]) ELSE len
              IN ValNew(m, obj.x, SliceOf(xs, a, b))
    [] name = "str" /\ n = 0 -> Val(m, S(Show(m, obj)))
    [] name = "iter" /\ n = 0 -> IterOf(m, obj, site)
    [] OTHER -> Throw(m, IF name \in {"len", "push", "pop", "insert", "remove", "clear", "has", "index", "rev", "slice", "str", "iter", "sort"}
                         THEN "RuntimeError" ELSE "PropertyError", site)

MapInvoke(m, obj, name, args, site) ==
  LET xs == m.heap[obj.n].xs n == Len(args)
      p == IF n >= 1 THEN KeyPos(xs, args[1], 1) ELSE 0
  IN
  CASE name = "len" /\ n = 0 -> Val(m, N(Len(xs) \div 2))
    [] name = "has" /\ n = 1 -> Val(m, B(p # 0))
    [] name = "get" /\ n = 1 -> Val(m, IF p = 0 THEN Nil ELSE xs[p + 1])
    [] name \in {"set", "insert"} /\ n = 2 ->
         IF p = 0 THEN Val([m EXCEPT !.heap[obj.n].xs = @ \o <<args[1], args[2]>>], Nil)
         ELSE Val([m EXCEPT !.heap[obj.n].xs[p + 1] = args[2]], xs[p + 1])
    [] name = "remove" /\ n = 1 ->
         IF p = 0 THEN Throw(m, "KeyError", site)
         ELSE Val([m EXCEPT !.heap[obj.n].xs = SubSeq(xs, 1, p - 1) \o SubSeq(xs, p + 2, Len(xs))], xs[p + 1])
    [] name = "iter" /\ n = 0 -> IterOf(m, obj, site)
    [] OTHER -> Throw(m, IF name \in {"len", "has", "get", "set", "insert", "remove", "iter", "str"} THEN "RuntimeError" ELSE "PropertyError", site)

StrInvoke(m, obj, name, args, site) ==
  LET cp == obj.cp len == Len(cp) n == Len(args) IN
  CASE name = "str" /\ n = 0 -> Val(m, obj)
    [] WildStr(obj) \/ (\E i \in 1 .. n : WildStr(args[i])) -> Val(m, Poison)
    [] name = "len" /\ n = 0 -> Val(m, N(len))
    [] name = "has" /\ n = 1 -> IF IsStr(args[1]) THEN Val(m, B(HasSub(cp, args[1].cp))) ELSE Throw(m, "RuntimeError", site)
    [] name = "upCase" /\ n = 0 -> Val(m, S([i \in 1 .. len |-> Upper(cp[i])]))
    [] name = "downCase" /\ n = 0 -> Val(m, S([i \in 1 .. len |-> Lower(cp[i])]))
    [] name = "trim" /\ n = 0 -> Val(m, S(TrimR(TrimL(cp))))
    [] name = "trimStart" /\ n = 0 -> Val(m, S(TrimL(cp)))
    [] name = "trimEnd" /\ n = 0 -> Val(m, S(TrimR(cp)))
    [] name = "slice" /\ n <= 2 ->
         IF \E i \in 1 .. n : ~IsNum(args[i]) THEN Throw(m, "RuntimeError", site)
         ELSE IF \E i \in 1 .. n : args[i].x = "frac" THEN Throw(m, "IndexError", site)
         ELSE IF \E i \in 1 .. n : ~IsInt(args[i]) THEN Val(m, Poison)
         ELSE LET a == IF n >= 1 THEN SliceIdx(len, args[1]) ELSE 0
                  b == IF n = 2 THEN SliceIdx(len, args[2]) ELSE len
              IN Val(m, S(SliceOf(cp, a, b)))
    [] name = "split" /\ n = 1 ->
         IF ~IsStr(args[1]) THEN Throw(m, "RuntimeError", site)
         ELSE IF args[1].cp = <<>> THEN Val(m, Poison)            \* splitting on "" is not modelled
         ELSE LET pieces == SplitCp(cp, args[1].cp, <<>>)
                  m1 == MkIter(m, "pieces", [i \in 1 .. Len(pieces) |-> S(pieces[i])], 0)
              IN Val(m1, R(LastObj(m1), "iter"))
    [] name = "iter" /\ n = 0 -> IterOf(m, obj, site)
    [] OTHER -> Throw(m, IF name \in {"len", "str", "has", "upCase", "downCase", "trim", "trimStart", "trimEnd", "slice", "split", "iter"}
                         THEN "RuntimeError" ELSE "PropertyError", site)

\* ---------------------------------------------------------------------------
\* Property access
FieldIdx(m, inst, name) == IndexOf(m.heap[m.heap[inst].cls].ks, name)

GetProp(m, obj, name, site) ==
  IF obj.t = "ref" /\ obj.x = "inst" THEN
    LET i == FieldIdx(m, obj.n, name) IN
      IF i # 0 THEN Val(m, m.heap[obj.n].xs[i])
      ELSE LET meth == FindMethod(m, m.heap[obj.n].cls, name) IN
             IF meth.t = "nil" THEN Throw(m, "RuntimeError", site)
             ELSE LET m1 == Alloc(m, Obj("bound", name, <<obj, meth>>, 0, 0, 0, <<>>, <<>>, <<>>))
                  IN Val(m1, R(LastObj(m1), "bound"))
  ELSE IF obj.t = "ref" /\ obj.x = "class" /\ name = "collect" /\ m.heap[obj.n].name \in {"List", "Tuple"} /\ obj.n <= Len(BuiltinClasses) THEN
    Val(m, V("native", 0, m.heap[obj.n].name \o ".collect", <<>>))
  ELSE IF obj.t = "ref" /\ obj.x = "class" THEN
    \* static methods live on the class itself
    LET i == IndexOf(m.heap[obj.n].sk, name) IN
      IF i = 0 THEN Throw(m, "RuntimeError", site)
      ELSE LET m1 == Alloc(m, Obj("bound", name, <<obj, m.heap[obj.n].sv[i]>>, 0, 0, 0, <<>>, <<>>, <<>>))
           IN Val(m1, R(LastObj(m1), "bound"))
  ELSE IF obj.t = "ref" /\ obj.x = "modinst" THEN
    LET i == IndexOf(m.heap[obj.n].ks, name) IN
      IF i = 0 THEN Throw(m, "RuntimeError", site) ELSE Val(m, m.heap[obj.n].xs[i])
  ELSE Throw(m, "RuntimeError", site)

SetProp(m, obj, name, v, site) ==
  IF obj.t = "ref" /\ obj.x = "inst" THEN
    LET i == FieldIdx(m, obj.n, name) IN
      IF i = 0 THEN Throw(m, "PropertyError", site)
      ELSE Val([m EXCEPT !.heap[obj.n].xs[i] = v], v)
  ELSE Throw(m, "RuntimeError", site)

\* obj.name(args): a field holding a callable shadows a method of the same name
Invoke(m, obj, name, args, site) ==
  IF obj.t = "ref" /\ obj.x = "inst" THEN
    LET i == FieldIdx(m, obj.n, name) IN
      IF i # 0 THEN Call(m, m.heap[obj.n].xs[i], args, site)
      ELSE LET meth == FindMethod(m, m.heap[obj.n].cls, name) IN
             IF meth.t = "nil" THEN Throw(m, "PropertyError", site)
             ELSE Enter(m, meth.n, obj, args, site)
  ELSE IF obj.t = "ref" /\ obj.x = "class" THEN
    LET i == IndexOf(m.heap[obj.n].sk, name) IN
      IF i = 0 THEN Throw(m, "PropertyError", site) ELSE Enter(m, m.heap[obj.n].sv[i].n, obj, args, site)
  ELSE IF obj.t = "ref" /\ obj.x = "modinst" THEN
    LET i == IndexOf(m.heap[obj.n].ks, name) IN
      IF i = 0 THEN Throw(m, "PropertyError", site) ELSE Call(m, m.heap[obj.n].xs[i], args, site)
  ELSE IF obj.t = "ref" /\ obj.x \in {"list", "tuple"} THEN SeqInvoke(m, obj, name, args, site)
  ELSE IF obj.t = "ref" /\ obj.x = "map" THEN MapInvoke(m, obj, name, args, site)
  ELSE IF obj.t = "ref" /\ obj.x = "iter" THEN IterInvoke(m, obj, name, args, site)
  ELSE IF obj.t = "str" THEN StrInvoke(m, obj, name, args, site)
  ELSE IF obj.t \in {"num", "bool", "nil"} /\ name = "str" /\ args = <<>> THEN Val(m, S(Show(m, obj)))
  ELSE IF IsNum(obj) /\ name = "times" /\ args = <<>> THEN
         IF IsInt(obj) /\ obj.n >= 0 THEN LET m1 == MkIter(m, "times", <<obj>>, 0) IN Val(m1, R(LastObj(m1), "iter"))
         ELSE IF obj.x \in {"", "nzero"} /\ obj.n < 0 THEN Throw(m, "ValueError", site) ELSE Val(m, Poison)
  ELSE IF IsNum(obj) /\ name = "until" /\ Len(args) \in {1, 2} THEN
         \* a.until(b [, stride]): the signature wants numbers, the stride must be positive
         IF \E i \in 1 .. Len(args) : ~IsNum(args[i]) THEN Throw(m, "RuntimeError", site)
         ELSE IF ~IsInt(obj) \/ (\E i \in 1 .. Len(args) : ~IsInt(args[i])) THEN Val(m, Poison)
         ELSE LET stride == IF Len(args) = 2 THEN args[2] ELSE N(1) IN
                IF stride.n <= 0 THEN Throw(m, "ValueError", site)
                ELSE LET m1 == MkIter(m, "until", <<obj, args[1], stride>>, 0) IN Val(m1, R(LastObj(m1), "iter"))
  ELSE IF IsNum(obj) /\ name = "until" THEN Throw(m, "RuntimeError", site)
  ELSE IF IsInt(obj) /\ name \in {"floor", "ceil", "round"} /\ args = <<>> THEN Val(m, obj)
  ELSE Throw(m, "PropertyError", site)

\* ---------------------------------------------------------------------------
\* Evaluate expression node n
EvalNode(m, n) ==
  LET nd == Node(n) k == nd.k IN
  CASE k = "nil" -> Val(m, Nil)
    [] k = "true" -> Val(m, B(TRUE))
    [] k = "false" -> Val(m, B(FALSE))
    [] k = "num" -> Val(m, N(nd.n))
    [] k = "str" -> Val(m, S(nd.cp))
    [] k = "var" ->
         LET loc == Lookup(m, m.env, nd.s) IN
           IF loc = 0 THEN Throw(m, "RuntimeError", n)
           ELSE IF m.store[loc].t = "undef" THEN Throw(m, "RuntimeError", n)   \* a declared name whose definition has not run
           ELSE Val(m, m.store[loc])
    [] k = "self" ->
         LET loc == Lookup(m, m.env, "self") IN
           IF loc = 0 THEN Throw(m, "RuntimeError", n) ELSE Val(m, m.store[loc])
    [] k \in {"un", "bin", "and", "or", "tern", "assign", "prop", "propset", "propop", "index", "indexset", "indexop", "interp"} ->
         Ev(PushK(m, Frame(k, n, 1, <<>>, m.env)), Kid(n, 1))
    [] k = "superget" ->
         \* super.name as a value: the method visible from the lexically enclosing class's parent, bound to self
         LET cl == Lookup(m, m.env, "$class")
             sl == Lookup(m, m.env, "self")
         IN IF cl = 0 \/ sl = 0 THEN Throw(m, "RuntimeError", n)
            ELSE LET meth == FindMethod(m, m.heap[m.store[cl].n].cls, nd.s) IN
                   IF meth.t = "nil" THEN Throw(m, "PropertyError", n)
                   ELSE LET m1 == Alloc(m, Obj("bound", nd.s, <<m.store[sl], meth>>, 0, 0, 0, <<>>, <<>>, <<>>))
                        IN Val(m1, R(LastObj(m1), "bound"))
    [] k = "opassign" ->
         \* name op= e : the variable is read before e is evaluated
         LET loc == Lookup(m, m.env, nd.s) IN
           IF loc = 0 THEN Throw(m, "RuntimeError", n)
           ELSE IF m.store[loc].t = "undef" THEN Throw(m, "RuntimeError", n)   \* declared, definition has not run: the read fails first
           ELSE Ev(PushK(m, Frame(k, n, 1, <<m.store[loc]>>, m.env)), Kid(n, 1))
    [] k \in {"call", "invoke", "list", "tuple", "superinvoke", "map"} ->
         IF NKids(n) = 0 THEN [PushK(m, Frame(k, n, 0, <<>>, m.env)) EXCEPT !.ctl = Ctl("val", 0, Nil)]
         ELSE Ev(PushK(m, Frame(k, n, 1, <<>>, m.env)), Kid(n, 1))
    [] k = "lambda" ->
         LET cls == LET loc == Lookup(m, m.env, "$class") IN IF loc = 0 THEN 0 ELSE m.store[loc].n
             m1 == Alloc(m, Obj("closure", nd.s, <<>>, n, m.env, cls, <<>>, <<>>, <<>>))
         IN Val(m1, R(LastObj(m1), "closure"))
    [] OTHER -> [m EXCEPT !.st = "model-error:ev:" \o k, !.ctl = Ctl("halt", 0, Nil)]

\* ---------------------------------------------------------------------------
\* Modules (C17): a module body runs once, in its own environment whose parent is the global environment; an import
\* binds the module instance (a snapshot of the exported values) or the requested exported values.
RECURSIVE BindSyms(_, _, _, _, _)
BindSyms(m, n, target, pairs, i) ==
  IF i > Len(pairs) THEN Nxt(m)
  ELSE LET name == pairs[i] alias == pairs[i + 1]
           me == m.mods[target]
           loc == Lookup(m, me.env, name)
       IN IF IndexOf(me.ex, name) = 0 \/ loc = 0 THEN Throw(m, "ImportError", n)
          ELSE BindSyms(Declare(m, m.env, alias, m.store[loc]), n, target, pairs, i + 2)

Import(m, n) ==
  LET nd == Node(n) target == nd.s IN
  IF target \notin DOMAIN P.mods THEN Throw(m, "ImportError", n)
  ELSE IF P.mods[target] = 0 THEN
    \* the file exists but does not compile: diagnostics, nothing of it runs, the program fails
    [m EXCEPT !.st = "import-compile-error", !.ctl = Ctl("halt", 0, Nil)]
  ELSE IF target \notin DOMAIN m.mods THEN
    \* first import: run the body, then come back to this statement
    LET m1 == NewEnv(m, 1)
        e == LastEnv(m1)
        m2 == [m1 EXCEPT !.mods = (target :> [env |-> e, st |-> "loading", ex |-> <<>>]) @@ @]
        m3 == PushK(m2, Frame("modload", n, 0, <<V("str", 0, m.cur, <<>>)>>, m.env))
    IN [Ex(m3, P.mods[target]) EXCEPT !.env = e, !.cur = target]
  ELSE IF m.mods[target].st = "loading" /\ nd.s2 = "syms" THEN Throw(m, "ImportError", n)   \* (cycles are not generated)
  ELSE
    LET me == m.mods[target] IN
    IF nd.s2 = "syms" THEN BindSyms(m, n, target, nd.fields, 1)
    ELSE LET vals == [i \in 1 .. Len(me.ex) |-> m.store[Lookup(m, me.env, me.ex[i])]]
             m1 == Alloc(m, Obj("modinst", target, vals, 0, 0, 0, me.ex, <<>>, <<>>))
         IN Nxt(Declare(m1, m.env, nd.fields[1], R(LastObj(m1), "modinst")))

\* ---------------------------------------------------------------------------
\* Execute statement node n
ExecNode(m, n) ==
  LET nd == Node(n) k == nd.k IN
  CASE k = "block" ->
         LET m1 == NewEnv(m, m.env) IN
           [PushK(m1, Frame("blk", n, 1, <<>>, m.env)) EXCEPT !.env = LastEnv(m1), !.ctl = Ctl("nxt", 0, Nil)]
    [] k = "module" ->
         [PushK(m, Frame("blk", n, 1, <<>>, m.env)) EXCEPT !.ctl = Ctl("nxt", 0, Nil)]
    [] k = "session" ->
         \* an interactive session (C19): the kids are the entries; an entry that ends in an uncaught error is
         \* reported and the session goes on with everything defined so far
         [PushK(m, Frame("sess", n, 1, <<>>, m.env)) EXCEPT !.ctl = Ctl("nxt", 0, Nil)]
    [] k = "let" /\ m.k # <<>> /\ TopK(m).f = "sess" ->
         \* a prompt entry declares its module-level name before the initialiser runs: if the initialiser raises the
         \* name stays declared but undefined (reading it is outside the model, assigning it defines it)
         LET m1 == Declare(m, m.env, nd.s, V("undef", 0, "", <<>>))
         IN Ev(PushK(m1, Frame("letset", n, Len(m1.store), <<>>, m.env)), Kid(n, 1))
    [] k \in {"exprst", "let", "if", "return1", "raise"} ->
         Ev(PushK(m, Frame(k, n, 1, <<>>, m.env)), Kid(n, 1))
    [] k = "return0" -> [m EXCEPT !.ctl = Ctl("ret", n, Nil)]
    [] k = "while" ->
         Ev(PushK(PushK(m, Frame("loop", n, 0, <<>>, m.env)), Frame("whilecond", n, 0, <<>>, m.env)), Kid(n, 1))
    [] k = "for" ->
         \* for item in expr body: one item variable for the whole loop
         Ev(PushK(m, Frame("forinit", n, 0, <<>>, m.env)), Kid(n, 1))
    [] k = "break" -> [m EXCEPT !.ctl = Ctl("brk", n, Nil)]
    [] k = "continue" -> [m EXCEPT !.ctl = Ctl("cnt", n, Nil)]
    [] k = "fn" ->
         LET cls == LET loc == Lookup(m, m.env, "$class") IN IF loc = 0 THEN 0 ELSE m.store[loc].n
             m0 == Declare(m, m.env, nd.s, Nil)      \* the name is in scope inside the function (recursion)
             m1 == Alloc(m0, Obj("closure", nd.s, <<>>, n, m.env, cls, <<>>, <<>>, <<>>))
             loc == Len(m0.store)
         IN Nxt([m1 EXCEPT !.store[loc] = R(LastObj(m1), "closure")])
    [] k = "class" ->
         \* kids: <<super expr or 0-marker ...>> handled through a frame
         IF nd.n = 1 THEN Ev(PushK(m, Frame("classsuper", n, 0, <<>>, m.env)), Kid(n, 1))
         ELSE [PushK(m, Frame("classsuper", n, 0, <<>>, m.env)) EXCEPT !.ctl = Ctl("val", 0, R(1, "class"))]
    [] k = "try" ->
         Ex(PushK(m, Frame("try", n, 0, <<>>, m.env)), Kid(n, 1))
    [] k = "export" ->
         Ex(PushK(m, Frame("export", n, 0, <<>>, m.env)), Kid(n, 1))
    [] k = "import" -> Import(m, n)
    [] OTHER -> [m EXCEPT !.st = "model-error:ex:" \o k, !.ctl = Ctl("halt", 0, Nil)]

\* ---------------------------------------------------------------------------
\* A value v arrives at the top frame
AssignVar(m, name, v, site) ==
  LET loc == Lookup(m, m.env, name) IN
    IF loc = 0 THEN Throw(m, "RuntimeError", site) ELSE Val([m EXCEPT !.store[loc] = v], v)

OpOf(s) == CASE s = "+=" -> "+" [] s = "-=" -> "-" [] s = "*=" -> "*" [] s = "/=" -> "/" [] OTHER -> s

\* continue evaluating the kids of node fr.n into fr.vs; when all are there call Done(m, vs)
NextKid(m, fr, v, total) ==
  LET vs == Append(fr.vs, v) IN
    IF fr.i < total
    THEN Ev(PushK(PopK(m), [fr EXCEPT !.i = @ + 1, !.vs = vs]), Kid(fr.n, fr.i + 1))
    ELSE PopK(m)      \* caller finishes with vs

\* build the class object once the superclass value is known; returns the machine with the class allocated
\* at heap id Len(m.heap) + 1 and the class environment (which knows "$class", for super) at Len(m.envs) + 1
MakeClass(m, n, super) ==
  LET nd == Node(n)
      sup == super.n
      own == nd.fields
      inherited == m.heap[sup].ks
      \* fields: the parent's, then the names assigned on self directly in init
      ks == inherited \o SelectSeq(own, LAMBDA f : IndexOf(inherited, f) = 0)
      m1 == Alloc(m, Obj("class", nd.s, <<>>, n, m.env, sup, ks, <<>>, <<>>))
      m2 == NewEnv(m1, m.env)
  IN Declare(m2, LastEnv(m2), "$class", R(LastObj(m1), "class"))

RECURSIVE AddMembers(_, _, _, _, _)
AddMembers(m, members, i, ce, cid) ==
  IF i > Len(members) THEN m
  ELSE LET fn == members[i]
           kind == Node(fn).s2
           m1 == Alloc(m, Obj("closure", Node(fn).s, <<>>, fn, ce, cid, <<>>, <<>>, <<>>))
           c == R(LastObj(m1), "closure")
           m2 == IF kind = "static"
                 THEN [m1 EXCEPT !.heap[cid].sk = Append(@, Node(fn).s), !.heap[cid].sv = Append(@, c)]
                 ELSE [m1 EXCEPT !.heap[cid].mk = Append(@, Node(fn).s), !.heap[cid].mv = Append(@, c)]
       IN AddMembers(m2, members, i + 1, ce, cid)

\* o[v]
IndexGet(m0, o, v, n) ==
  IF o.t = "ref" /\ o.x \in {"list", "tuple"} THEN
    LET xs == m0.heap[o.n].xs len == Len(xs) IN
      IF ~IsNum(v) THEN Throw(m0, "RuntimeError", n)
      ELSE IF v.x = "frac" THEN ThrowN(m0, "IndexError", n, "[]")      \* "Index must be an integer."
      ELSE IF ~IsInt(v) THEN Val(m0, Poison)
      ELSE LET ix == IF v.n < 0 THEN len + v.n ELSE v.n IN
             IF ix < 0 \/ ix >= len THEN ThrowN(m0, "IndexError", n, "[]") ELSE Val(m0, xs[ix + 1])
  ELSE IF o.t = "ref" /\ o.x = "map" THEN
    LET p == KeyPos(m0.heap[o.n].xs, v, 1) IN
      IF p = 0 THEN ThrowN(m0, "KeyError", n, "[]") ELSE Val(m0, m0.heap[o.n].xs[p + 1])
  ELSE IF o.t = "str" THEN
    LET len == Len(o.cp) IN
      IF WildStr(o) THEN Val(m0, Poison)
      ELSE IF ~IsNum(v) THEN Throw(m0, "RuntimeError", n)
      ELSE IF v.x = "frac" THEN ThrowN(m0, "IndexError", n, "[]")
      ELSE IF ~IsInt(v) THEN Val(m0, Poison)
      ELSE LET ix == IF v.n < 0 THEN len + v.n ELSE v.n IN
             IF ix < 0 \/ ix >= len THEN ThrowN(m0, "IndexError", n, "[]") ELSE Val(m0, S(<<o.cp[ix + 1]>>))
  ELSE Throw(m0, "RuntimeError", n)

\* o[ixv] = v
IndexPut(m0, o, ixv, v, n) ==
  IF o.t = "ref" /\ o.x = "list" THEN
    LET len == Len(m0.heap[o.n].xs) IN
      IF ~IsNum(ixv) THEN Throw(m0, "RuntimeError", n)
      ELSE IF ixv.x = "frac" THEN ThrowN(m0, "IndexError", n, "[]=")
      ELSE IF ~IsInt(ixv) THEN Val(m0, Poison)
      ELSE LET ix == IF ixv.n < 0 THEN len + ixv.n ELSE ixv.n IN
             IF ix < 0 \/ ix >= len THEN ThrowN(m0, "IndexError", n, "[]=")
             ELSE Val([m0 EXCEPT !.heap[o.n].xs[ix + 1] = v], v)
  ELSE IF o.t = "ref" /\ o.x = "map" THEN
    LET p == KeyPos(m0.heap[o.n].xs, ixv, 1) IN
      IF p = 0 THEN Val([m0 EXCEPT !.heap[o.n].xs = @ \o <<ixv, v>>], v)
      ELSE Val([m0 EXCEPT !.heap[o.n].xs[p + 1] = v], v)
  ELSE Throw(m0, "RuntimeError", n)

IterFrames == {"p.map", "p.map2", "p.filter", "p.filter2", "p.take", "p.zip", "p.chain", "c.next", "c.first", "c.each", "c.each2",
               "c.reduce", "c.reduce2", "c.all", "c.any", "c.all2", "c.any2", "c.last", "c.len", "c.list", "c.tuple", "c.skip"}

ValueAt(m, v) ==
  LET fr == TopK(m) f == fr.f n == fr.n m0 == PopK(m) IN
  CASE f \in IterFrames -> IterFrame(m0, fr, v)
    [] f = "c.sort" -> SortFrame(m0, fr, v)
    [] f = "exprst" -> Nxt(m0)
    [] f = "exprbody" -> [m0 EXCEPT !.ctl = Ctl("ret", n, v)]
    [] f = "let" -> Nxt(Declare(m0, m0.env, Node(n).s, v))
    [] f = "letset" -> Nxt([m0 EXCEPT !.store[fr.i] = v])
    [] f = "un" ->
         IF Node(n).s = "!" THEN Val(m0, B(~Truthy(v)))
         ELSE IF IsNum(v) THEN Val(m0, Neg(v)) ELSE Throw(m0, "RuntimeError", n)
    [] f = "bin" ->
         IF fr.i = 1 THEN Ev(PushK(m0, [fr EXCEPT !.i = 2, !.vs = <<v>>]), Kid(n, 2))
         ELSE BinOp(m0, Node(n).s, fr.vs[1], v, n)
    [] f = "and" -> IF fr.i = 1 /\ Truthy(v) THEN Ev(PushK(m0, [fr EXCEPT !.i = 2]), Kid(n, 2)) ELSE Val(m0, v)
    [] f = "or" -> IF fr.i = 1 /\ ~Truthy(v) THEN Ev(PushK(m0, [fr EXCEPT !.i = 2]), Kid(n, 2)) ELSE Val(m0, v)
    [] f = "tern" -> IF fr.i = 1 THEN Ev(PushK(m0, [fr EXCEPT !.i = 2]), IF Truthy(v) THEN Kid(n, 2) ELSE Kid(n, 3))
                     ELSE Val(m0, v)
    [] f = "assign" -> AssignVar(m0, Node(n).s, v, n)
    [] f = "opassign" ->
         LET r == BinOp(m0, OpOf(Node(n).s2), fr.vs[1], v, n) IN
           IF r.ctl.m = "val" THEN AssignVar(m0, Node(n).s, r.ctl.v, n) ELSE r
    [] f = "if" ->
         IF Truthy(v) THEN Ex(m0, Kid(n, 2))
         ELSE IF NKids(n) >= 3 THEN Ex(m0, Kid(n, 3)) ELSE Nxt(m0)
    [] f = "whilecond" ->
         IF Truthy(v) THEN Ex(PushK(m0, Frame("whilebody", n, 0, <<>>, m0.env)), Kid(n, 2))
         ELSE Nxt(PopK(m0))                           \* drop the loop marker
    [] f = "return1" -> [m0 EXCEPT !.ctl = Ctl("ret", n, v)]
    [] f = "raise" ->
         IF v.t = "ref" /\ v.x = "inst" /\ IsSubclass(m0, m0.heap[v.n].cls, ClassId("Error"))
         THEN [[m0 EXCEPT !.heap[v.n].fn = n] EXCEPT !.ctl = Ctl("thr", n, v), !.tb = Acts(m0, n)]
         ELSE Throw(m0, "RuntimeError", n)
    [] f \in {"list", "tuple"} ->
         LET vs == IF fr.i = 0 THEN <<>> ELSE Append(fr.vs, v) IN
           IF fr.i < NKids(n) /\ fr.i # 0 THEN Ev(PushK(m0, [fr EXCEPT !.i = @ + 1, !.vs = vs]), Kid(n, fr.i + 1))
           ELSE LET m1 == Alloc(m0, Obj(f, "", vs, 0, 0, 0, <<>>, <<>>, <<>>)) IN Val(m1, R(LastObj(m1), f))
    [] f = "call" ->
         \* kids: callee, args...
         LET vs == Append(fr.vs, v) IN
           IF fr.i < NKids(n) THEN Ev(PushK(m0, [fr EXCEPT !.i = @ + 1, !.vs = vs]), Kid(n, fr.i + 1))
           ELSE Call(m0, vs[1], SubSeq(vs, 2, Len(vs)), n)
    [] f = "invoke" ->
         \* kids: receiver, args...; s = method name
         LET vs == Append(fr.vs, v) IN
           IF fr.i < NKids(n) THEN Ev(PushK(m0, [fr EXCEPT !.i = @ + 1, !.vs = vs]), Kid(n, fr.i + 1))
           ELSE Invoke(m0, vs[1], Node(n).s, SubSeq(vs, 2, Len(vs)), n)
    [] f = "superinvoke" ->
         \* super.name(args): the method visible from the lexically enclosing class's parent, receiver = self
         LET vs == IF fr.i = 0 THEN <<>> ELSE Append(fr.vs, v) IN
           IF fr.i < NKids(n) /\ fr.i # 0 THEN Ev(PushK(m0, [fr EXCEPT !.i = @ + 1, !.vs = vs]), Kid(n, fr.i + 1))
           ELSE LET cl == Lookup(m0, m0.env, "$class")
                    sl == Lookup(m0, m0.env, "self")
                IN IF cl = 0 \/ sl = 0 THEN Throw(m0, "RuntimeError", n)
                   ELSE LET meth == FindMethod(m0, m0.heap[m0.store[cl].n].cls, Node(n).s) IN
                          IF meth.t = "nil" THEN Throw(m0, "PropertyError", n)
                          ELSE Enter(m0, meth.n, m0.store[sl], vs, n)
    [] f = "prop" -> GetProp(m0, v, Node(n).s, n)
    [] f = "propset" ->
         IF fr.i = 1 THEN Ev(PushK(m0, [fr EXCEPT !.i = 2, !.vs = <<v>>]), Kid(n, 2))
         ELSE SetProp(m0, fr.vs[1], Node(n).s, v, n)
    [] f = "propop" ->
         \* obj.name op= e : obj, then read obj.name, then e, then write
         IF fr.i = 1 THEN
           LET g == GetProp(m0, v, Node(n).s, n) IN
             IF g.ctl.m # "val" THEN g
             ELSE Ev(PushK(g, [fr EXCEPT !.i = 2, !.vs = <<v, g.ctl.v>>]), Kid(n, 2))
         ELSE LET r == BinOp(m0, OpOf(Node(n).s2), fr.vs[2], v, n) IN
                IF r.ctl.m = "val" THEN SetProp(m0, fr.vs[1], Node(n).s, r.ctl.v, n) ELSE r
    [] f = "index" ->
         IF fr.i = 1 THEN Ev(PushK(m0, [fr EXCEPT !.i = 2, !.vs = <<v>>]), Kid(n, 2))
         ELSE IndexGet(m0, fr.vs[1], v, n)
    [] f = "indexset" ->
         IF fr.i < 3 THEN Ev(PushK(m0, [fr EXCEPT !.i = @ + 1, !.vs = Append(@, v)]), Kid(n, fr.i + 1))
         ELSE IndexPut(m0, fr.vs[1], fr.vs[2], v, n)
    [] f = "indexop" ->
         \* a[i] op= e : a, then i (once), then read a[i], then e, then write a[i]
         IF fr.i = 1 THEN Ev(PushK(m0, [fr EXCEPT !.i = 2, !.vs = <<v>>]), Kid(n, 2))
         ELSE IF fr.i = 2 THEN
           LET g == IndexGet(m0, fr.vs[1], v, n) IN
             IF g.ctl.m # "val" THEN g
             ELSE Ev(PushK(g, [fr EXCEPT !.i = 3, !.vs = <<fr.vs[1], v, g.ctl.v>>]), Kid(n, 3))
         ELSE LET r == BinOp(m0, OpOf(Node(n).s2), fr.vs[3], v, n) IN
                IF r.ctl.m = "val" THEN IndexPut(m0, fr.vs[1], fr.vs[2], r.ctl.v, n) ELSE r
    [] f = "interp" ->
         \* "a${e}b": every segment is converted with str()
         LET vs == Append(fr.vs, v) IN
           IF fr.i < NKids(n) THEN Ev(PushK(m0, [fr EXCEPT !.i = @ + 1, !.vs = vs]), Kid(n, fr.i + 1))
           ELSE LET RECURSIVE cat(_)
                    cat(i) == IF i > Len(vs) THEN <<>> ELSE Show(m0, vs[i]) \o cat(i + 1)
                IN Val(m0, S(cat(1)))
    [] f = "classsuper" ->
         IF ~(v.t = "ref" /\ v.x = "class") THEN Throw(m0, "RuntimeError", n)
         ELSE LET cid == Len(m0.heap) + 1
                  ce == Len(m0.envs) + 1
                  base == IF Node(n).n = 1 THEN 1 ELSE 0
                  members == [i \in 1 .. NKids(n) - base |-> Kid(n, base + i)]
                  m1 == AddMembers(MakeClass(m0, n, v), members, 1, ce, cid)
              IN Nxt(Declare(m1, m0.env, Node(n).s, R(cid, "class")))
    [] f = "forinit" ->
         \* the iterable's iterator (lists, tuples, strings, maps iterate their elements; an iterator is itself)
         IterOf(PushK(m0, Frame("forinit2", n, 0, <<>>, m0.env)), v, n)
    [] f = "forinit2" ->
         \* one item variable for the whole loop
         LET m1 == NewEnv(m0, m0.env)
             e == LastEnv(m1)
             m2 == Declare(m1, e, Node(n).s, Nil)
         IN [PushK(PushK(m2, Frame("loop", n, 0, <<>>, m0.env)), Frame("foriter", n, v.n, <<>>, e))
               EXCEPT !.env = e, !.ctl = Ctl("nxt", 0, Nil)]
    [] f = "forpull" ->
         \* m0 has the foriter frame on top
         IF Truthy(v) THEN
           LET it == TopK(m0) loc == Lookup(m0, it.e, Node(n).s) IN
             Ex([m0 EXCEPT !.store[loc] = IterCur(m0, it.i), !.env = it.e], Kid(n, 2))
         ELSE LET m1 == PopK(m0) IN [Nxt(PopK(m1)) EXCEPT !.env = TopK(m1).e]
    [] f = "map" ->
         \* map literal: kids alternate key, value; a later equal key replaces the earlier entry's value
         LET vs == IF fr.i = 0 THEN <<>> ELSE Append(fr.vs, v) IN
           IF fr.i < NKids(n) /\ fr.i # 0 THEN Ev(PushK(m0, [fr EXCEPT !.i = @ + 1, !.vs = vs]), Kid(n, fr.i + 1))
           ELSE LET RECURSIVE build(_, _)
                    build(i, acc) == IF i > Len(vs) THEN acc
                                     ELSE LET p == KeyPos(acc, vs[i], 1) IN
                                            build(i + 2, IF p = 0 THEN acc \o <<vs[i], vs[i + 1]>> ELSE [acc EXCEPT ![p + 1] = vs[i + 1]])
                IN ValNew(m0, "map", build(1, <<>>))
    [] OTHER -> [m0 EXCEPT !.st = "model-error:val:" \o f, !.ctl = Ctl("halt", 0, Nil)]

\* ---------------------------------------------------------------------------
\* A statement finished normally
NextAt(m) ==
  IF m.k = <<>> THEN [m EXCEPT !.st = "ok", !.ctl = Ctl("halt", 0, Nil)]
  ELSE LET fr == TopK(m) f == fr.f n == fr.n m0 == PopK(m) IN
  CASE f = "blk" ->
         IF fr.i <= NKids(n) THEN Ex(PushK(m0, [fr EXCEPT !.i = @ + 1]), Kid(n, fr.i))
         ELSE [Nxt(m0) EXCEPT !.env = fr.e]
    [] f = "sess" ->
         IF fr.i <= NKids(n) THEN Ex(PushK(m0, [fr EXCEPT !.i = @ + 1]), Kid(n, fr.i))
         ELSE [m0 EXCEPT !.st = "ok", !.ctl = Ctl("halt", 0, Nil)]
    [] f = "whilebody" -> Ev(PushK(m0, Frame("whilecond", n, 0, <<>>, m0.env)), Kid(n, 1))
    [] f = "foriter" -> Pull(PushK(m, Frame("forpull", n, fr.i, <<>>, fr.e)), fr.i, n)
    [] f = "try" -> Nxt(m0)                               \* try block completed: handler deactivated
    [] f = "export" ->
         LET name == Node(Kid(n, 1)).s IN
           Nxt([m0 EXCEPT !.mods[m0.cur].ex = IF IndexOf(@, name) = 0 THEN Append(@, name) ELSE @])
    [] f = "modload" ->
         \* the imported body has finished: back to the importer, which now finds the module loaded
         [Ex([m0 EXCEPT !.mods[m0.cur].st = "done"], n) EXCEPT !.env = fr.e, !.cur = fr.vs[1].x]
    [] f = "catch" -> [Nxt(m0) EXCEPT !.env = fr.e]
    [] f = "call" ->
         \* fell off the end of a function body: nil (an initialiser yields the instance)
         LET fnnode == m0.heap[fr.i].fn IN
           [Val(m0, IF Node(fnnode).s2 = "init" THEN fr.vs[1] ELSE Nil) EXCEPT !.env = fr.e]
    [] OTHER -> [m0 EXCEPT !.st = "model-error:nxt:" \o f, !.ctl = Ctl("halt", 0, Nil)]

\* ---------------------------------------------------------------------------
\* Unwinding break / continue / return / throw
Unwind(m) ==
  LET sig == m.ctl.m IN
  IF m.k = <<>> THEN
    IF sig = "thr" THEN [m EXCEPT !.st = "err:" \o m.heap[m.heap[m.ctl.v.n].cls].name, !.ctl = Ctl("halt", 0, m.ctl.v)]
    ELSE [m EXCEPT !.st = "model-error:unwind:" \o sig, !.ctl = Ctl("halt", 0, Nil)]
  ELSE LET fr == TopK(m) f == fr.f m0 == PopK(m) IN
    CASE sig = "brk" /\ f = "loop" -> [Nxt(m0) EXCEPT !.env = fr.e]
      [] sig = "cnt" /\ f = "loop" ->
           \* re-enter the loop: the marker stays; while re-evaluates its condition, for advances
           IF Node(fr.n).k = "while"
              THEN [Ev(PushK(m, Frame("whilecond", fr.n, 0, <<>>, fr.e)), Kid(fr.n, 1)) EXCEPT !.env = fr.e]
              ELSE [m EXCEPT !.st = "model-error:cnt", !.ctl = Ctl("halt", 0, Nil)]
      [] sig = "cnt" /\ f = "foriter" -> [PushK(m0, fr) EXCEPT !.ctl = Ctl("nxt", 0, Nil), !.env = fr.e]
      [] sig = "ret" /\ f = "call" ->
           LET fnnode == m0.heap[fr.i].fn IN
             [Val(m0, IF Node(fnnode).s2 = "init" THEN fr.vs[1] ELSE m.ctl.v) EXCEPT !.env = fr.e]
      [] sig = "thr" /\ f = "sess" ->
           \* the prompt reports the error (marker line: code point 1 then the class name) and continues
           [PushK(m0, fr) EXCEPT !.env = fr.e, !.ctl = Ctl("nxt", 0, Nil),
                                 !.out = Append(@, <<1>> \o FnameCp(m.heap[m.heap[m.ctl.v.n].cls].name))]
      [] sig = "thr" /\ f = "try" ->
           \* try the catch clauses in order: kids 2.. are catch nodes (s = variable, s2 = class name or "")
           [PushK(m0, Frame("catchsel", fr.n, 2, <<m.ctl.v>>, fr.e)) EXCEPT !.env = fr.e, !.ctl = Ctl("sel", 0, m.ctl.v)]
      [] OTHER -> m0        \* discard the frame, keep unwinding

\* select a catch clause
Select(m) ==
  LET fr == TopK(m) n == fr.n m0 == PopK(m) err == fr.vs[1] IN
  IF fr.i > NKids(n) THEN [m0 EXCEPT !.ctl = Ctl("thr", m.heap[err.n].fn, err)]         \* no clause matched: rethrow
  ELSE LET c == Kid(n, fr.i)
           cname == Node(c).s2
           loc == IF cname = "" THEN 0 ELSE Lookup(m0, fr.e, cname)
           cv == IF cname = "" THEN R(ClassId("Error"), "class") ELSE IF loc = 0 THEN Nil ELSE m0.store[loc]
       IN IF cname # "" /\ loc = 0 THEN Throw(m0, "RuntimeError", c)
          ELSE IF ~(cv.t = "ref" /\ cv.x = "class" /\ IsSubclass(m0, cv.n, ClassId("Error"))) THEN Throw(m0, "TypeError", c)
          ELSE IF IsSubclass(m0, m0.heap[err.n].cls, cv.n) THEN
                 \* the error's backTrace: the calls between the raise and the catching frame, innermost first
                 LET depthHere == CallsBelow(m0, Len(m0.k)) + 1
                     cnt == Len(m0.tb) - depthHere + 1
                     entries == [i \in 1 .. (IF cnt < 0 THEN 0 ELSE cnt) |->
                                   S(<<64>> \o NatCp(m0.tb[i].n) \o <<58>> \o FnameCp(m0.tb[i].f))]
                     mb == Alloc(m0, Obj("tuple", "", entries, 0, 0, 0, <<>>, <<>>, <<>>))
                     mbt == [mb EXCEPT !.heap[err.n].xs[2] = R(LastObj(mb), "tuple")]
                     m1 == NewEnv(mbt, fr.e)
                     e == LastEnv(m1)
                     m2 == Declare(m1, e, Node(c).s, err)
                 IN [Ex(PushK(m2, Frame("catch", c, 0, <<>>, fr.e)), Kid(c, 1)) EXCEPT !.env = e]
          ELSE [PushK(m0, [fr EXCEPT !.i = @ + 1]) EXCEPT !.ctl = Ctl("sel", 0, err)]

StepFn(m) ==
  LET c == m.ctl IN
  CASE c.m = "ev" -> EvalNode(m, c.n)
    [] c.m = "ex" -> ExecNode(m, c.n)
    [] c.m = "val" -> IF c.v.t = "poison" THEN [m EXCEPT !.st = "skip:outside-model", !.ctl = Ctl("halt", 0, Nil)]
                      ELSE IF m.k = <<>> THEN [m EXCEPT !.st = "model-error:val-empty", !.ctl = Ctl("halt", 0, Nil)]
                      ELSE ValueAt(m, c.v)
    [] c.m = "nxt" -> NextAt(m)
    [] c.m \in {"brk", "cnt", "ret", "thr"} -> Unwind(m)
    [] c.m = "sel" -> Select(m)

MaxSteps == 20000

Next ==
  /\ M.ctl.m # "halt"
  /\ M' = (LET m1 == StepFn(M) IN
             IF M.steps >= MaxSteps THEN [M EXCEPT !.st = "skip:steps", !.ctl = Ctl("halt", 0, Nil)]
             ELSE [m1 EXCEPT !.steps = M.steps + 1])
  /\ UNCHANGED pi

Spec == Init /\ [][Next]_<<pi, M>>

\* the machine is deterministic: a state is identified by the program and the number of reductions done
View == <<pi, M.steps, M.ctl.m>>

\* ---------------------------------------------------------------------------
\* Contract-level invariants of the machine itself
EnvOK == \A e \in 1 .. Len(M.envs) : \A i \in 1 .. Len(M.envs[e].locs) : M.envs[e].locs[i] <= Len(M.store)
Inv == EnvOK

\* the prediction for one program, printed when it halts
Result ==
  M.ctl.m = "halt" =>
    PrintT("CASE " \o ToJson([id |-> P.id, out |-> M.out, st |-> M.st, steps |-> M.steps,
                              tb |-> IF M.ctl.v.t = "ref" THEN M.tb ELSE <<>>]))
=============================================================================
