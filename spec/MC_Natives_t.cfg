SPECIFICATION Spec
CONSTANTS
  MaxArgs = 4
  Kinds = {"nil", "bool", "num", "str", "list", "map", "tuple", "fun", "closure", "native", "method", "class", "inst", "iter", "chan"}
INVARIANTS BodySafe TableOK RecvOK
ACTION_CONSTRAINT Emit
CHECK_DEADLOCK FALSE
