------------------------------ MODULE Trace_Gc ------------------------------
(* Trace validation of allocator events (hook classes "alloc", "gc") against the contract Gc.tla. *)
EXTENDS Gc, Json, IOUtils

Rec == ndJsonDeserialize(IOEnv.TRACE)

VARIABLES l, skip
tvars == <<gcvars, l, skip>>
TInit == GcInit /\ l = 1 /\ skip = FALSE

TNext ==
  /\ l <= Len(Rec)
  /\ l' = l + 1
  /\ LET e == Rec[l] IN
       IF e.ev = "reset" THEN /\ szs' = <<>> /\ gens' = <<>> /\ total' = 0 /\ table' = <<>> /\ sid' = <<>> /\ skip' = FALSE
                              /\ base' = (IF e.hit THEN 0 ELSE 0 - 1)      \* reset.hit = the recording covers the bootstrap
       ELSE IF skip THEN UNCHANGED <<gcvars, skip>>
       ELSE IF GcOk(e) THEN GcDo(e) /\ skip' = FALSE
       ELSE /\ PrintT("REJECT " \o ToJson([l |-> l, run |-> e.run, ev |-> e.ev, why |-> Why(e), n |-> e.n,
                                           bytes |-> e.bytes,
                                           expect |-> IF e.ev = "gc" /\ (\A a \in ToSet(e.freed) : Held(a)) /\ base >= 0
                                                      THEN base + total - SumSz(e.freed, 1) ELSE 0]))
            /\ skip' = TRUE /\ UNCHANGED gcvars

TSpec == TInit /\ [][TNext]_tvars

\* the spec is deterministic: the position identifies the state
TView == <<l, skip>>

AllConsumed ==
  LET d == TLCGet("stats").diameter IN
    IF d - 1 = Len(Rec) THEN TRUE ELSE PrintT(<<"NOT_CONSUMED", d, Len(Rec)>>) /\ FALSE
=============================================================================
