------------------------------- MODULE Fibers -------------------------------
(***************************************************************************)
(* CONTRACT specification of Laythe's fibers and channels (properties C07  *)
(* and C08).  It says what a user may rely on and nothing about how the    *)
(* runtime schedules: channels are FIFO queues with a capacity, a          *)
(* synchronous sender is held until its value has been taken, close is     *)
(* sticky, and a deadlock may be reported only when no fiber can move.     *)
(*                                                                         *)
(* The spec is an acceptor of EVENTS.  An event is what one fiber did to   *)
(* one channel (or to the fiber set).  The same module is used             *)
(*   - composed with the as-is scheduler model (Sched.tla) so that TLC     *)
(*     checks "as-is implies contract" over all small programs, and        *)
(*   - by Trace_Fibers.tla to validate event streams recorded from the     *)
(*     real VM (hook class "sched").                                       *)
(***************************************************************************)
EXTENDS Naturals, Sequences, TLC, FiniteSets

VARIABLES
  cch,    \* channel id -> [buf, cap, sync, closed]
  cfib,   \* fiber id   -> [st, c]   st \in {"ready","wsend","wrecv","handed","released","done"}
  cend,   \* "run" | "exit" | "deadlock" | "error"
  csent,  \* channel id -> sequence of every value accepted by the channel (history)
  crcvd   \* channel id -> sequence of every value delivered by the channel (history)

cvars == <<cch, cfib, cend, csent, crcvd>>

NoChan == 0 - 1

\* An event.  Every field is always present so that records are uniformly typed.
\*   ev  : "chan" "launch" "send" "recv" "close" "complete" "deadlock" "exit" "main"
\*   f   : acting fiber          t : target fiber (launch)      c : channel
\*   res : outcome tag           v : value (a string)           n : a number (cap / queue length after the op)
Ev(ev, f, t, c, res, v, n, sync) ==
  [ev |-> ev, f |-> f, t |-> t, c |-> c, res |-> res, v |-> v, n |-> n, sync |-> sync]

CInit ==
  /\ cch = <<>>
  /\ cfib = <<>>
  /\ cend = "run"
  /\ csent = <<>>
  /\ crcvd = <<>>

Known(f) == f \in DOMAIN cfib
KnownC(c) == c \in DOMAIN cch

\* A fiber may act only if it exists, is not finished, and is not a synchronous sender whose
\* value is still sitting in the channel.
MayAct(f) == Known(f) /\ cfib[f].st \notin {"done", "handed"}
\* (a "released" sender is one whose value has been taken: it may act again)

SetFib(f, st, c) == cfib' = [cfib EXCEPT ![f] = [st |-> st, c |-> c]]

Full(c)  == Len(cch[c].buf) >= cch[c].cap
CanSend(c) == cch[c].closed \/ ~Full(c)
CanRecv(c) == cch[c].closed \/ cch[c].buf # <<>>

-----------------------------------------------------------------------------
\* Channel and fiber creation

NewChan(e) ==
  /\ e.ev = "chan"
  /\ MayAct(e.f)
  /\ ~KnownC(e.c)
  /\ e.n >= 1
  /\ cch' = cch @@ (e.c :> [buf |-> <<>>, cap |-> e.n, sync |-> e.sync, closed |-> FALSE])
  /\ csent' = csent @@ (e.c :> <<>>)
  /\ crcvd' = crcvd @@ (e.c :> <<>>)
  /\ UNCHANGED <<cfib, cend>>

Main(e) ==
  /\ e.ev = "main"
  /\ cfib = <<>>
  /\ cfib' = (e.f :> [st |-> "ready", c |-> NoChan])
  /\ UNCHANGED <<cch, cend, csent, crcvd>>

Launch(e) ==
  /\ e.ev = "launch"
  /\ MayAct(e.f)
  /\ ~Known(e.t)
  /\ cfib' = [cfib EXCEPT ![e.f] = [st |-> "ready", c |-> NoChan]] @@ (e.t :> [st |-> "ready", c |-> NoChan])
  /\ UNCHANGED <<cch, cend, csent, crcvd>>

-----------------------------------------------------------------------------
\* Sending

\* buffered channel with room: the value is appended, the sender goes on
SendOk(e) ==
  /\ e.ev = "send" /\ e.res = "ok"
  /\ MayAct(e.f) /\ KnownC(e.c)
  /\ ~cch[e.c].closed /\ ~cch[e.c].sync /\ ~Full(e.c)
  /\ cch' = [cch EXCEPT ![e.c].buf = Append(@, e.v)]
  /\ csent' = [csent EXCEPT ![e.c] = Append(@, e.v)]
  /\ e.n = Len(cch'[e.c].buf)
  /\ SetFib(e.f, "ready", NoChan)
  /\ UNCHANGED <<cend, crcvd>>

\* synchronous channel: the value is handed over and the sender is held
SendHand(e) ==
  /\ e.ev = "send" /\ e.res = "fullblock"
  /\ MayAct(e.f) /\ KnownC(e.c)
  /\ ~cch[e.c].closed /\ cch[e.c].sync /\ cch[e.c].buf = <<>>
  /\ cch' = [cch EXCEPT ![e.c].buf = <<e.v>>]
  /\ csent' = [csent EXCEPT ![e.c] = Append(@, e.v)]
  /\ e.n = 1
  /\ SetFib(e.f, "handed", e.c)
  /\ UNCHANGED <<cend, crcvd>>

\* no room: the sender waits, nothing is enqueued
SendWait(e) ==
  /\ e.ev = "send" /\ e.res = "full"
  /\ MayAct(e.f) /\ KnownC(e.c)
  /\ ~cch[e.c].closed /\ Full(e.c)
  /\ e.n = Len(cch[e.c].buf)
  /\ SetFib(e.f, "wsend", e.c)
  /\ UNCHANGED <<cch, cend, csent, crcvd>>

\* closed: the send raises in the sender, nothing is enqueued
SendClosed(e) ==
  /\ e.ev = "send" /\ e.res = "closed"
  /\ MayAct(e.f) /\ KnownC(e.c)
  /\ cch[e.c].closed
  /\ e.n = Len(cch[e.c].buf)
  /\ SetFib(e.f, "ready", NoChan)
  /\ UNCHANGED <<cch, cend, csent, crcvd>>

-----------------------------------------------------------------------------
\* Receiving

\* the oldest value is delivered to exactly this receiver; on a synchronous channel this is the
\* moment the held sender is released
RecvOk(e) ==
  /\ e.ev = "recv" /\ e.res = "ok"
  /\ MayAct(e.f) /\ KnownC(e.c)
  /\ cch[e.c].buf # <<>>
  /\ Head(cch[e.c].buf) = e.v
  /\ cch' = [cch EXCEPT ![e.c].buf = Tail(@)]
  /\ crcvd' = [crcvd EXCEPT ![e.c] = Append(@, e.v)]
  /\ e.n = Len(cch'[e.c].buf)
  /\ cfib' = [g \in DOMAIN cfib |->
               IF g = e.f THEN [st |-> "ready", c |-> NoChan]
               ELSE IF cfib[g].st = "handed" /\ cfib[g].c = e.c THEN [st |-> "released", c |-> e.c]
               ELSE cfib[g]]
  /\ UNCHANGED <<cend, csent>>

RecvWait(e) ==
  /\ e.ev = "recv" /\ e.res \in {"empty", "emptyblock"}
  /\ MayAct(e.f) /\ KnownC(e.c)
  /\ ~cch[e.c].closed /\ cch[e.c].buf = <<>>
  /\ (e.res = "emptyblock") = cch[e.c].sync
  /\ e.n = 0
  /\ SetFib(e.f, "wrecv", e.c)
  /\ UNCHANGED <<cch, cend, csent, crcvd>>

\* closed and drained: the receiver gets nil
RecvClosed(e) ==
  /\ e.ev = "recv" /\ e.res = "closed"
  /\ MayAct(e.f) /\ KnownC(e.c)
  /\ cch[e.c].closed /\ cch[e.c].buf = <<>>
  /\ e.n = 0
  /\ SetFib(e.f, "ready", NoChan)
  /\ UNCHANGED <<cch, cend, csent, crcvd>>

-----------------------------------------------------------------------------
\* Closing.  The hook in Channel::close does not know the fiber, so e.f is not constrained.

CloseOk(e) ==
  /\ e.ev = "close" /\ e.res = "ok"
  /\ KnownC(e.c)
  /\ ~cch[e.c].closed
  /\ cch' = [cch EXCEPT ![e.c].closed = TRUE]
  /\ e.n = Len(cch[e.c].buf)
  /\ UNCHANGED <<cfib, cend, csent, crcvd>>

CloseAgain(e) ==
  /\ e.ev = "close" /\ e.res = "already"
  /\ KnownC(e.c)
  /\ cch[e.c].closed
  /\ e.n = Len(cch[e.c].buf)
  /\ UNCHANGED <<cch, cfib, cend, csent, crcvd>>

-----------------------------------------------------------------------------
\* Fiber end, program end

Complete(e) ==
  /\ e.ev = "complete"
  /\ MayAct(e.f)
  /\ SetFib(e.f, "done", NoChan)
  /\ UNCHANGED <<cch, cend, csent, crcvd>>

Exit(e) ==
  /\ e.ev = "exit"
  /\ MayAct(e.f)
  /\ cend' = "exit"
  /\ SetFib(e.f, "done", NoChan)
  /\ UNCHANGED <<cch, csent, crcvd>>

\* Can fiber g make progress in the current contract state?
CanMove(g) ==
  LET s == cfib[g] IN
    CASE s.st = "ready"  -> TRUE
      [] s.st = "wsend"  -> CanSend(s.c)
      [] s.st = "wrecv"  -> CanRecv(s.c)
      [] s.st = "released" -> TRUE                  \* value taken, sender may go on
      [] s.st = "handed" -> FALSE                   \* value still in the channel
      [] OTHER           -> FALSE

Stuck == \A g \in DOMAIN cfib : ~CanMove(g)

\* Why a reported deadlock is wrong: the first fiber that could still move, with the reason
DeadlockReason ==
  IF Stuck THEN "none"
  ELSE LET g == CHOOSE g \in DOMAIN cfib : CanMove(g)
           s == cfib[g]
       IN CASE s.st = "ready"  -> "ready"
            [] s.st = "wsend"  -> IF cch[s.c].closed THEN "send:closed" ELSE "send:space"
            [] s.st = "wrecv"  -> IF cch[s.c].buf # <<>> THEN "recv:value" ELSE "recv:closed"
            [] s.st = "released" -> "syncsend:taken"
            [] OTHER -> "?"

Deadlock(e) ==
  /\ e.ev = "deadlock"
  /\ Stuck
  /\ cend' = "deadlock"
  /\ UNCHANGED <<cch, cfib, csent, crcvd>>

-----------------------------------------------------------------------------
Accept(e) ==
  /\ cend = "run"
  /\ \/ Main(e) \/ NewChan(e) \/ Launch(e)
     \/ SendOk(e) \/ SendHand(e) \/ SendWait(e) \/ SendClosed(e)
     \/ RecvOk(e) \/ RecvWait(e) \/ RecvClosed(e)
     \/ CloseOk(e) \/ CloseAgain(e)
     \/ Complete(e) \/ Exit(e) \/ Deadlock(e)

\* Events the contract does not talk about (scheduler internals)
Internal(e) == e.ev \in {"queue", "switch"}

-----------------------------------------------------------------------------
\* Invariants of the contract state (they hold by construction of the actions above; they are
\* checked anyway, in the model and on every validated trace, as a guard against spec slips)

Capacity == \A c \in DOMAIN cch : Len(cch[c].buf) <= cch[c].cap

Conservation == \A c \in DOMAIN cch : csent[c] = crcvd[c] \o cch[c].buf

OneHanded == \A c \in DOMAIN cch :
               Cardinality({g \in DOMAIN cfib : cfib[g].st = "handed" /\ cfib[g].c = c}) <= 1

HandedHasValue == \A g \in DOMAIN cfib :
                    cfib[g].st = "handed" => cch[cfib[g].c].sync

CInv == Capacity /\ Conservation /\ OneHanded /\ HandedHasValue
=============================================================================
