SPECIFICATION Spec
CONSTANTS
  NF = 3
  Cap <- Cap2
  IsSync <- Sync2
  MaxOps = 4
  OpKinds <- AllOps
  WBad = "-"
  WEnd = "-"
VIEW View
INVARIANT Inv
CHECK_DEADLOCK FALSE
