------------------------------- MODULE Sched -------------------------------
(***************************************************************************)
(* AS-IS model of Laythe's fiber scheduler and channels, shaped like the   *)
(* code (laythe_vm/src/vm/ops.rs op_send/op_receive/op_launch,             *)
(* vm/basic.rs context_switch/pop_frame/queue_blocked_fiber,               *)
(* fiber/mod.rs activate/sleep/block/unblock/complete/get_runnable,        *)
(* laythe_core channel_queue.rs send/receive/runnable_waiter/              *)
(* find_runnable_waiter, laythe_lib channel.rs close).                     *)
(*                                                                         *)
(* The scheduler is deterministic and cooperative, so "all schedules"      *)
(* means "all programs": the running fiber picks its next operation        *)
(* nondeterministically (bounded by MaxOps), which makes TLC explore every *)
(* program over the operation alphabet.  Every step emits the events the   *)
(* hooked VM emits for it; the contract (Fibers.tla) consumes them in lock *)
(* step, and the first event the contract refuses is stored in `bad`.      *)
(* The host assertions (`assert!` in activate/unblock/complete) are        *)
(* explicit failure states.                                                *)
(***************************************************************************)
EXTENDS Fibers

CONSTANTS NF,        \* number of fibers available (main is fiber 0)
          Cap,       \* sequence: capacity per channel (channel ids 0..Len(Cap)-1), sync channels have 1
          IsSync,    \* sequence of booleans
          MaxOps,    \* operations per fiber (excluding the implicit end)
          OpKinds,   \* subset of {"send","recv","close","launch"}
          FocusMode  \* TRUE: follow only behaviours in which a waiter search skipped a finished fiber's entry and
                     \* found a live one behind it; from that step on every fiber just ends (see `focus`)

Fib == 0 .. NF - 1
Chan == 0 .. Len(Cap) - 1
None == 0 - 1
NoOp == [k |-> "none", c |-> None]

VARIABLES
  cur,      \* running fiber
  fst,      \* fiber -> "Unborn" | "Pending" | "Running" | "Blocked" | "Complete"
  rflag,    \* fiber -> ChannelWaiter.runnable
  fq,       \* Vm.fiber_queue
  q,        \* channel -> queue contents
  cst,      \* channel -> "Ready" | "Closed" | "ClosedEmpty"
  sendW,    \* channel -> send_waiters (fiber ids, duplicates possible)
  recvW,    \* channel -> receive_waiters
  used,     \* fiber -> Fiber.channels (insertion order, no duplicates)
  parent,   \* fiber -> parent fiber or None
  op,       \* fiber -> operation being (re)tried, NoOp if the next one is still to be chosen
  nops,     \* fiber -> operations chosen so far
  phase,    \* "run" | "switch" (a ContextSwitch signal is pending)
  end,      \* "run" | "exit" | "deadlock" | "error" | "panic:activate" | "panic:unblock"
  prog,     \* history: fiber -> sequence of operations chosen (the program)
  evs,      \* history: events emitted so far
  bad,      \* "none" or the contract's reason for refusing an event
  focus     \* FocusMode only: a waiter search has skipped a stale entry and hit a live one

avars == <<cur, fst, rflag, fq, q, cst, sendW, recvW, used, parent, op, nops, phase, end>>
hvars == <<prog, evs>>
vars == <<avars, hvars, bad, cvars, focus>>

\* What TLC fingerprints: the histories are left out so that equal scheduler states reached by
\* different programs are merged.
View == <<avars, bad, cch, cfib, cend, focus>>

ch(i) == i + 1   \* sequences are 1-based

-----------------------------------------------------------------------------
Init ==
  /\ cur = 0
  /\ fst = [f \in Fib |-> IF f = 0 THEN "Running" ELSE "Unborn"]
  /\ rflag = [f \in Fib |-> TRUE]
  /\ fq = <<>>
  /\ q = [c \in Chan |-> <<>>]
  /\ cst = [c \in Chan |-> "Ready"]
  /\ sendW = [c \in Chan |-> <<>>]
  /\ recvW = [c \in Chan |-> <<>>]
  /\ used = [f \in Fib |-> <<>>]
  /\ parent = [f \in Fib |-> None]
  /\ op = [f \in Fib |-> NoOp]
  /\ nops = [f \in Fib |-> 0]
  /\ phase = "run"
  /\ end = "run"
  /\ prog = [f \in Fib |-> <<>>]
  /\ evs = <<>>
  /\ bad = "none"
  /\ focus = FALSE
  \* the contract starts with main and the channels in place
  /\ cch = [c \in Chan |-> [buf |-> <<>>, cap |-> Cap[ch(c)], sync |-> IsSync[ch(c)], closed |-> FALSE]]
  /\ cfib = (0 :> [st |-> "ready", c |-> NoChan])
  /\ cend = "run"
  /\ csent = [c \in Chan |-> <<>>]
  /\ crcvd = [c \in Chan |-> <<>>]

-----------------------------------------------------------------------------
\* find_runnable_waiter: pop entries until a runnable one is found (it is popped too)
RECURSIVE FindRunnable(_, _)
FindRunnable(s, rf) ==
  IF s = <<>> THEN [w |-> None, rest |-> <<>>]
  ELSE IF rf[Head(s)] THEN [w |-> Head(s), rest |-> Tail(s)]
  ELSE FindRunnable(Tail(s), rf)

Closed(c, cs) == cs[c] # "Ready"

\* ChannelQueue::runnable_waiter for channel c over the given waiter tables
RunnableWaiter(c, SW, RW, qq, cs, rf) ==
  LET fromS == FindRunnable(SW[c], rf)
      fromR == FindRunnable(RW[c], rf)
      takeS == [w |-> fromS.w, SW |-> [SW EXCEPT ![c] = fromS.rest], RW |-> RW]
      takeR == [w |-> fromR.w, SW |-> SW, RW |-> [RW EXCEPT ![c] = fromR.rest]]
  IN IF IsSync[ch(c)] THEN
       IF qq[c] = <<>> /\ ~Closed(c, cs) THEN takeS ELSE takeR
     ELSE
       IF qq[c] = <<>> /\ ~Closed(c, cs) THEN takeS
       ELSE IF Len(qq[c]) = Cap[ch(c)] \/ Closed(c, cs) THEN takeR
       ELSE IF fromS.w # None THEN takeS
       ELSE \* send waiters were drained by the failed search, then the receive waiters are searched
            [w |-> fromR.w, SW |-> [SW EXCEPT ![c] = fromS.rest], RW |-> [RW EXCEPT ![c] = fromR.rest]]

\* Fiber::get_runnable: scan the used channels in order, stop at the first hit
RECURSIVE GetRunnable(_, _, _, _, _, _)
GetRunnable(us, SW, RW, qq, cs, rf) ==
  IF us = <<>> THEN [w |-> None, SW |-> SW, RW |-> RW]
  ELSE LET r == RunnableWaiter(Head(us), SW, RW, qq, cs, rf)
       IN IF r.w # None THEN r ELSE GetRunnable(Tail(us), r.SW, r.RW, qq, cs, rf)

\* `fiber.or_else(|| self.fiber.get_runnable())`
Wake(first, us, SW, RW, qq, cs, rf) ==
  IF first # None THEN [w |-> first, SW |-> SW, RW |-> RW]
  ELSE GetRunnable(us, SW, RW, qq, cs, rf)

AddUsed(us, c) == IF \E i \in 1 .. Len(us) : us[i] = c THEN us ELSE Append(us, c)

E(ev, f, t, c, res, v, n) == Ev(ev, f, t, c, res, v, n, FALSE)
QueueEv(t) == E("queue", None, t, None, "", "", 0)

\* Value sent by the k-th operation of fiber f, as the VM's hook renders it
ValOf(f, k) == ToString(10 * (f + 1) + k)

-----------------------------------------------------------------------------
\* The contract consumes the one contract-relevant event of the step
Contract(e) ==
  IF bad # "none" THEN UNCHANGED <<cvars, bad>>
  ELSE IF ENABLED Accept(e) THEN Accept(e) /\ UNCHANGED bad
  ELSE /\ bad' = (IF e.ev = "deadlock" THEN "deadlock:" \o DeadlockReason
                  ELSE IF Known(e.f) /\ cfib[e.f].st = "handed" THEN "handed-sender-moved"
                  ELSE "guard:" \o e.ev \o ":" \o e.res)
       /\ UNCHANGED cvars

\* queue_blocked_fiber(t) applied to the tables: returns the new fst/fq or a panic
\* (unblock() asserts state in {Blocked, Pending})
QueueBlocked(t, st, queue) ==
  IF t = None THEN [ok |-> TRUE, fst |-> st, fq |-> queue, evs |-> <<>>]
  ELSE IF st[t] \in {"Blocked", "Pending"}
       THEN [ok |-> TRUE, fst |-> [st EXCEPT ![t] = "Pending"], fq |-> Append(queue, t), evs |-> <<QueueEv(t)>>]
       ELSE [ok |-> FALSE, fst |-> st, fq |-> queue, evs |-> <<>>]   \* the assertion fires before the hook

-----------------------------------------------------------------------------
\* Operation alphabet of fiber f
Unborn == {g \in Fib : fst[g] = "Unborn"}
NextChild == CHOOSE g \in Unborn : \A h \in Unborn : g <= h

OpsOf(f) ==
  IF nops[f] >= MaxOps \/ focus THEN {[k |-> "end", c |-> None]}
  ELSE {[k |-> "end", c |-> None]}
       \cup {[k |-> kk, c |-> c] : kk \in OpKinds \cap {"send", "recv", "close"}, c \in Chan}
       \cup (IF "launch" \in OpKinds /\ Unborn # {} THEN {[k |-> "launch", c |-> None]} ELSE {})

Running == end = "run" /\ phase = "run" /\ fst[cur] = "Running"

\* bookkeeping shared by every operation: o is the operation executed now by f
Chosen(f, o, retry) ==
  /\ nops' = IF op[f] = NoOp THEN [nops EXCEPT ![f] = @ + 1] ELSE nops
  /\ prog' = IF op[f] = NoOp THEN [prog EXCEPT ![f] = Append(@, o)] ELSE prog
  /\ op' = [op EXCEPT ![f] = IF retry THEN o ELSE NoOp]

\* index (1-based) of the operation in f's program, used to derive the value it sends
OpIndex(f) == IF op[f] = NoOp THEN nops[f] + 1 ELSE nops[f]

-----------------------------------------------------------------------------
\* op_send
Send(f, o) ==
  LET c == o.c
      v == ValOf(f, OpIndex(f))
      us == AddUsed(used[f], c)
  IN
  /\ o.k = "send"
  /\ used' = [used EXCEPT ![f] = us]
  /\ IF cst[c] # "Ready" THEN
       \* SendResult::Closed -> runtime error, unhandled in generated programs: the program ends
       /\ Contract(E("send", f, None, c, "closed", v, Len(q[c])))
       /\ evs' = Append(evs, E("send", f, None, c, "closed", v, Len(q[c])))
       /\ end' = "error"
       /\ Chosen(f, o, FALSE)
       /\ UNCHANGED <<cur, fst, rflag, fq, q, cst, sendW, recvW, parent, phase>>
     ELSE IF IsSync[ch(c)] /\ q[c] = <<>> THEN
       \* enqueue, register as send waiter, FullBlock(find(receive_waiters)); wake; block(); no rewind
       LET q1 == [q EXCEPT ![c] = <<v>>]
           sw1 == [sendW EXCEPT ![c] = Append(@, f)]
           fr == FindRunnable(recvW[c], rflag)
           rw1 == [recvW EXCEPT ![c] = fr.rest]
           wk == Wake(fr.w, us, sw1, rw1, q1, cst, rflag)
           qb == QueueBlocked(wk.w, fst, fq)
           e == E("send", f, None, c, "fullblock", v, 1)
       IN /\ q' = q1 /\ sendW' = wk.SW /\ recvW' = wk.RW
          /\ Contract(e)
          /\ evs' = Append(evs, e) \o qb.evs
          /\ IF qb.ok THEN /\ fst' = [qb.fst EXCEPT ![f] = "Blocked"]
                           /\ fq' = qb.fq /\ phase' = "switch" /\ end' = end
                      ELSE /\ end' = "panic:unblock" /\ UNCHANGED <<fst, fq, phase>>
          /\ Chosen(f, o, FALSE)
          /\ UNCHANGED <<cur, rflag, cst, parent>>
     ELSE IF Len(q[c]) < Cap[ch(c)] THEN
       \* SendResult::Ok: no wake-up at all
       LET e == E("send", f, None, c, "ok", v, Len(q[c]) + 1)
       IN /\ q' = [q EXCEPT ![c] = Append(@, v)]
          /\ Contract(e)
          /\ evs' = Append(evs, e)
          /\ Chosen(f, o, FALSE)
          /\ UNCHANGED <<cur, fst, rflag, fq, cst, sendW, recvW, parent, phase, end>>
     ELSE
       \* SendResult::Full: register, wake, rewind, sleep()
       LET sw1 == [sendW EXCEPT ![c] = Append(@, f)]
           fr == FindRunnable(recvW[c], rflag)
           rw1 == [recvW EXCEPT ![c] = fr.rest]
           wk == Wake(fr.w, us, sw1, rw1, q, cst, rflag)
           qb == QueueBlocked(wk.w, fst, fq)
           e == E("send", f, None, c, "full", v, Len(q[c]))
       IN /\ sendW' = wk.SW /\ recvW' = wk.RW
          /\ Contract(e)
          /\ evs' = Append(evs, e) \o qb.evs
          /\ IF qb.ok THEN /\ fst' = [qb.fst EXCEPT ![f] = "Pending"]
                           /\ rflag' = [rflag EXCEPT ![f] = TRUE]
                           /\ fq' = qb.fq /\ phase' = "switch" /\ end' = end
                      ELSE /\ end' = "panic:unblock" /\ UNCHANGED <<fst, fq, phase, rflag>>
          /\ Chosen(f, o, TRUE)
          /\ UNCHANGED <<cur, q, cst, parent>>

\* op_receive
Recv(f, o) ==
  LET c == o.c
      us == AddUsed(used[f], c)
  IN
  /\ o.k = "recv"
  /\ used' = [used EXCEPT ![f] = us]
  /\ IF q[c] # <<>> THEN
       \* Ready or Closed with a value: ReceiveResult::Ok, nobody is woken
       LET e == E("recv", f, None, c, "ok", Head(q[c]), Len(q[c]) - 1)
       IN /\ q' = [q EXCEPT ![c] = Tail(@)]
          /\ Contract(e)
          /\ evs' = Append(evs, e)
          /\ Chosen(f, o, FALSE)
          /\ UNCHANGED <<cur, fst, rflag, fq, cst, sendW, recvW, parent, phase, end>>
     ELSE IF cst[c] # "Ready" THEN
       \* closed and empty: nil
       LET e == E("recv", f, None, c, "closed", "", 0)
       IN /\ cst' = [cst EXCEPT ![c] = "ClosedEmpty"]
          /\ Contract(e)
          /\ evs' = Append(evs, e)
          /\ Chosen(f, o, FALSE)
          /\ UNCHANGED <<cur, fst, rflag, fq, q, sendW, recvW, parent, phase, end>>
     ELSE
       \* empty: register, find a sender, wake, rewind; sync blocks, buffered sleeps
       LET rw1 == [recvW EXCEPT ![c] = Append(@, f)]
           fr == FindRunnable(sendW[c], rflag)
           sw1 == [sendW EXCEPT ![c] = fr.rest]
           wk == Wake(fr.w, us, sw1, rw1, q, cst, rflag)
           qb == QueueBlocked(wk.w, fst, fq)
           sync == IsSync[ch(c)]
           e == E("recv", f, None, c, IF sync THEN "emptyblock" ELSE "empty", "", 0)
       IN /\ sendW' = wk.SW /\ recvW' = wk.RW
          /\ Contract(e)
          /\ evs' = Append(evs, e) \o qb.evs
          /\ IF qb.ok THEN /\ fst' = [qb.fst EXCEPT ![f] = IF sync THEN "Blocked" ELSE "Pending"]
                           /\ rflag' = IF sync THEN rflag ELSE [rflag EXCEPT ![f] = TRUE]
                           /\ fq' = qb.fq /\ phase' = "switch" /\ end' = end
                      ELSE /\ end' = "panic:unblock" /\ UNCHANGED <<fst, fq, phase, rflag>>
          /\ Chosen(f, o, TRUE)
          /\ UNCHANGED <<cur, q, cst, parent>>

\* Channel.close(): a native; changes the queue state only, wakes nobody, does not touch `used`.
\* Closing twice raises ChannelError (unhandled in generated programs: the program ends).
Close(f, o) ==
  LET c == o.c IN
  /\ o.k = "close"
  /\ IF cst[c] # "Ready" THEN
       LET e == E("close", f, None, c, "already", "", Len(q[c]))
       IN /\ Contract(e) /\ evs' = Append(evs, e) /\ end' = "error"
          /\ UNCHANGED cst
     ELSE
       LET e == E("close", f, None, c, "ok", "", Len(q[c]))
       IN /\ cst' = [cst EXCEPT ![c] = IF q[c] = <<>> THEN "ClosedEmpty" ELSE "Closed"]
          /\ Contract(e) /\ evs' = Append(evs, e) /\ end' = end
  /\ Chosen(f, o, FALSE)
  /\ UNCHANGED <<cur, fst, rflag, fq, q, sendW, recvW, used, parent, phase>>

\* op_launch: the callee's frame is split off into a new fiber appended to the queue
Launch_(f, o) ==
  LET t == NextChild
      e == E("launch", f, t, None, "", "", 0)
  IN
  /\ o.k = "launch"
  /\ Unborn # {}
  /\ fst' = [fst EXCEPT ![t] = "Pending"]
  /\ parent' = [parent EXCEPT ![t] = f]
  /\ fq' = Append(fq, t)
  /\ Contract(e) /\ evs' = Append(evs, e)
  /\ Chosen(f, o, FALSE)
  /\ UNCHANGED <<cur, rflag, q, cst, sendW, recvW, used, phase, end>>

\* the fiber's last frame returns: main -> Exit; otherwise complete() then ContextSwitch
End(f, o) ==
  /\ o.k = "end"
  /\ Chosen(f, o, FALSE)
  /\ IF f = 0 THEN
       LET e == E("exit", f, None, None, "", "", 0)
       IN /\ Contract(e) /\ evs' = Append(evs, e) /\ end' = "exit"
          /\ UNCHANGED <<cur, fst, rflag, fq, q, cst, sendW, recvW, used, parent, phase>>
     ELSE
       \* complete(): state = Complete; runnable = false; parent bias (parent.is_pending()), else
       \* get_runnable(); channels.clear(); then queue_blocked_fiber(waiter)
       LET rf1 == [rflag EXCEPT ![f] = FALSE]
           st1 == [fst EXCEPT ![f] = "Complete"]
           p == parent[f]
           bias == p # None /\ st1[p] = "Pending"
           wk == IF bias THEN [w |-> p, SW |-> sendW, RW |-> recvW]
                 ELSE GetRunnable(used[f], sendW, recvW, q, cst, rf1)
           qb == QueueBlocked(wk.w, st1, fq)
           e == E("complete", f, None, None, "", "", 0)
       IN /\ rflag' = rf1
          /\ sendW' = wk.SW /\ recvW' = wk.RW
          /\ used' = [used EXCEPT ![f] = <<>>]
          /\ Contract(e)
          /\ evs' = Append(evs, e) \o qb.evs
          /\ IF qb.ok THEN /\ fst' = qb.fst /\ fq' = qb.fq /\ phase' = "switch" /\ end' = end
                      ELSE /\ fst' = st1 /\ end' = "panic:unblock" /\ UNCHANGED <<fq, phase>>
          /\ UNCHANGED <<cur, q, cst, parent>>

Exec(f, o) == Send(f, o) \/ Recv(f, o) \/ Close(f, o) \/ Launch_(f, o) \/ End(f, o)

Step ==
  /\ Running
  /\ LET f == cur IN
       IF op[f] # NoOp THEN Exec(f, op[f])
       ELSE \E o \in OpsOf(f) : Exec(f, o)

\* ExecutionSignal::ContextSwitch: pop the queue or report deadlock; activate() asserts
Switch ==
  /\ end = "run" /\ phase = "switch"
  /\ IF fq = <<>> THEN
       LET e == E("deadlock", cur, None, None, "", "", 0)
       IN /\ Contract(e) /\ evs' = Append(evs, e) /\ end' = "deadlock"
          /\ UNCHANGED <<cur, fst, rflag, fq, q, cst, sendW, recvW, used, parent, op, nops, phase, prog>>
     ELSE
       LET t == Head(fq)
           e == E("switch", t, None, None, "", "", 0)
       IN /\ fq' = Tail(fq)
          /\ cur' = t
          /\ IF fst[t] = "Pending" THEN /\ fst' = [fst EXCEPT ![t] = "Running"] /\ end' = end /\ phase' = "run"
                                        /\ evs' = Append(evs, e)
                                   ELSE /\ end' = "panic:activate" /\ UNCHANGED <<fst, phase, evs>>
          /\ UNCHANGED <<rflag, q, cst, sendW, recvW, used, parent, op, nops, prog, bad, cvars>>

\* a search over a waiter list that begins with the entry of a finished fiber and still finds a live waiter
\* behind it (find_runnable_waiter's loop): the list got shorter in this step and such a hit was possible
SkipHit(s, rf) == s # <<>> /\ ~rf[Head(s)] /\ FindRunnable(s, rf).w # None
SkipNow == \E c \in Chan : \/ (SkipHit(sendW[c], rflag') /\ Len(sendW'[c]) < Len(sendW[c]))
                           \/ (SkipHit(recvW[c], rflag') /\ Len(recvW'[c]) < Len(recvW[c]))

Next == (Step \/ Switch) /\ focus' = (FocusMode /\ (focus \/ SkipNow))

Spec == Init /\ [][Next]_vars
\* C08 as a temporal property: under weak fairness of the scheduler's step (the VM's loop always takes the next step it
\* can) every behaviour reaches an end state - normal end, error, exit, reported deadlock (or one of the as-is panics)
FairSpec == Spec /\ WF_vars(Next)
Terminates == <>(end # "run")

-----------------------------------------------------------------------------
\* What is checked

\* Design-level statement of C07/C08 for the as-is scheduler: the contract accepts everything it does
AsIsRefinesContract == bad = "none"

\* The host assertions are never violated (C16)
NoPanic == end \notin {"panic:activate", "panic:unblock"}

\* the as-is queue agrees with the contract buffer while the contract is still following
BuffersAgree == bad = "none" => \A c \in Chan : q[c] = cch[c].buf

TypeOK ==
  /\ cur \in Fib
  /\ \A c \in Chan : Len(q[c]) <= Cap[ch(c)]

Inv == TypeOK /\ CInv /\ BuffersAgree

Terminated == end # "run"
=============================================================================
