------------------------------ MODULE MC_Sched ------------------------------
EXTENDS Sched, Json
\* channel 0: synchronous, channel 1: buffered capacity 1, channel 2: buffered capacity 2
Cap2 == <<1, 1>>
Sync2 == <<TRUE, FALSE>>
Cap3 == <<1, 1, 2>>
Sync3 == <<TRUE, FALSE, FALSE>>
AllOps == {"send", "recv", "close", "launch"}
NoClose == {"send", "recv", "launch"}

\* Clustering "invariant": print a signature for every bad terminal state, never fail.
Classify ==
  (end # "run" /\ (bad # "none" \/ end \in {"panic:activate", "panic:unblock"}))
     => PrintT("CLASS " \o ToJson([end |-> end, bad |-> bad]))

\* Witness search: WBad/WEnd are overridden per run; the invariant fails at the first state of the class and
\* prints its program and predicted events.
CONSTANTS WBad, WEnd
Witness == (bad = WBad /\ end = WEnd) => (PrintT("WITNESS " \o ToJson([prog |-> prog, evs |-> evs, end |-> end, bad |-> bad])) /\ FALSE)
WitnessBad == (bad = WBad) => (PrintT("WITNESS " \o ToJson([prog |-> prog, evs |-> evs, end |-> end, bad |-> bad])) /\ FALSE)

\* Compact rendering of histories for printing
EvStr(e) == e.ev \o "|" \o ToString(e.f) \o "|" \o ToString(e.t) \o "|" \o ToString(e.c) \o "|" \o e.res \o "|" \o e.v \o "|" \o ToString(e.n)
OpStr(o) == o.k \o ToString(o.c)
CompactEvs(es) == [i \in 1 .. Len(es) |-> EvStr(es[i])]
CompactProg(pr) == [f \in DOMAIN pr |-> [i \in 1 .. Len(pr[f]) |-> OpStr(pr[f][i])]]

\* Transition coverage: an action constraint TLC evaluates on EVERY transition (also those into states it
\* has already seen); it prints the representative history of the source state extended by this step, so the
\* set of printed behaviours exercises every (state, operation) pair of the model.  Always TRUE.
EmitStep == PrintT("STEP " \o ToJson([prog |-> CompactProg(prog'), evs |-> CompactEvs(evs'), end |-> end', bad |-> bad']))

\* "never spins" (C08) at design level: every step appends to the event history, so with the histories in the
\* fingerprint (no VIEW: MC_Sched_noview.cfg) the behaviour graph is a tree, and the exhaustive search terminates
\* exactly when the as-is scheduler has no infinite behaviour for any program within the bounds
HistoryGrows == [][end' = "run" => Len(evs') > Len(evs)]_vars      \* (a step into a terminal state may be silent: the VM panics before the hook)

\* FocusMode: print the finished behaviours in which the search skipped a stale entry and hit a live waiter
EmitFocus == (end' # "run" /\ focus') =>
  PrintT("STEP " \o ToJson([prog |-> CompactProg(prog'), evs |-> CompactEvs(evs'), end |-> end', bad |-> bad']))

\* Print one behaviour (program + predicted events) when it has ended; used with -simulate
Emit == end # "run" => PrintT("BEHAVIOUR " \o ToJson([prog |-> prog, evs |-> evs, end |-> end, bad |-> bad]))
=============================================================================
