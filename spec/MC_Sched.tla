------------------------------ MODULE MC_Sched ------------------------------
EXTENDS Sched, Json
\* channel 0: synchronous, channel 1: buffered capacity 1, channel 2: buffered capacity 2
Cap2 == <<1, 1>>
Sync2 == <<TRUE, FALSE>>
Cap3 == <<1, 1, 2>>
Sync3 == <<TRUE, FALSE, FALSE>>
AllOps == {"send", "recv", "close", "launch"}
NoClose == {"send", "recv", "launch"}

\* Clustering "invariant": print a signature for every bad terminal state, never fail.
Classify ==
  (end # "run" /\ (bad # "none" \/ end \in {"panic:activate", "panic:unblock"}))
     => PrintT("CLASS " \o ToJson([end |-> end, bad |-> bad]))

\* Witness search: WBad/WEnd are overridden per run; the invariant fails at the first state of the class and
\* prints its program and predicted events.
CONSTANTS WBad, WEnd
Witness == (bad = WBad /\ end = WEnd) => (PrintT("WITNESS " \o ToJson([prog |-> prog, evs |-> evs, end |-> end, bad |-> bad])) /\ FALSE)
WitnessBad == (bad = WBad) => (PrintT("WITNESS " \o ToJson([prog |-> prog, evs |-> evs, end |-> end, bad |-> bad])) /\ FALSE)

\* Print one behaviour (program + predicted events) when it has ended; used with -simulate
Emit == end # "run" => PrintT("BEHAVIOUR " \o ToJson([prog |-> prog, evs |-> evs, end |-> end, bad |-> bad]))
=============================================================================
