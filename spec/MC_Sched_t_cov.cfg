SPECIFICATION Spec
CONSTANTS
  NF = 3
  Cap <- Cap2
  IsSync <- Sync2
  MaxOps = 4
  OpKinds <- AllOps
  FocusMode = FALSE
  WBad = "-"
  WEnd = "-"
VIEW View
INVARIANT Inv
ACTION_CONSTRAINT EmitStep
CHECK_DEADLOCK FALSE
