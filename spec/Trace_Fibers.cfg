SPECIFICATION TSpec
INVARIANT TInv
POSTCONDITION AllConsumed
CHECK_DEADLOCK FALSE
