#!/bin/bash
# usage: seed_confirm2.sh <seed id>: confirm /verif/seeded/<id>/patch.diff in the scratch worktree /tmp/seed/wt-confirm (at /repo HEAD)
set -u
SID=$1; D=/verif/seeded/$SID; WT=${SEED_WT:-/tmp/seed/wt-confirm}
cd $WT || exit 2
git checkout -q -- . ; git clean -fdq -e target
DEMO_CMD=$(python3 -c "import json;print(json.load(open('$D/meta.json'))['demo_cmd'])" | sed "s#/tmp/seed/wt-[A-Z0-9]*#$WT#g; s#/tmp/seed/out-\([A-Z0-9]*\)/\(m[0-9]\)#/verif/seeded/\1-\2#g")
run_demo() { ( cd $WT; timeout 300 bash -c "$DEMO_CMD" > /tmp/seed/$SID.$1.out 2>&1; echo "rc=$?" >> /tmp/seed/$SID.$1.out ); }
cargo build --offline -q -p laythe 2>/dev/null
run_demo without
git apply $D/patch.diff || { echo "$SID APPLY FAILED"; exit 2; }
cargo build --offline -q -p laythe 2>/dev/null
run_demo with
cargo test --workspace --no-fail-fast --offline 2>&1 | grep -E "^test .* FAILED" | grep -v "^test result" | awk '{print $2}' | sort > /tmp/seed/$SID.failed
git checkout -q -- . ; git clean -fdq -e target
python3 - <<PY
import json
failed=[l.strip() for l in open("/tmp/seed/$SID.failed")]
base={"math::utils::test::cos::call","math::utils::test::rand::call","math::utils::test::sin::call","env","utils"}
extra=[f for f in failed if f not in base]
w=open("/tmp/seed/$SID.with.out").read(); wo=open("/tmp/seed/$SID.without.out").read()
json.dump({"tests_failed":failed,"extra_failures":extra,"demo_differs":w!=wo,"with_tail":w[-300:],"without_tail":wo[-300:],"confirmed_at":"/repo HEAD (hooks + fix commits)"},open("$D/confirm.json","w"),indent=1)
print("$SID","extra_failures=",extra,"demo_differs=",w!=wo)
PY
