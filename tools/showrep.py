import json,sys
r=json.load(open(sys.argv[1]))
rp=r['replay']
print(r['what'][:300])
src=rp['source'].splitlines()
pat=sys.argv[2] if len(sys.argv)>2 else None
for i,l in enumerate(src):
    if pat is None or pat in l: print(i+1,l[:240])
print('PRED',rp['predicted']['out'][:int(sys.argv[3]) if len(sys.argv)>3 else 6])
print('OBS',rp['observed']['stdout'].splitlines()[:int(sys.argv[3]) if len(sys.argv)>3 else 6], rp['observed']['stderr'][-300:])
