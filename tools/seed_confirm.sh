#!/bin/bash
# usage: seed_confirm.sh <PID> <mk>   (e.g. C07 m1): confirm a seeded mutant in its scratch worktree
# applies the patch, runs the full suite, runs the demo with and without; writes confirm.json next to the patch
set -u
PID=$1; M=$2
WT=/tmp/seed/wt-$PID; OUT=/tmp/seed/out-$PID/$M
cd $WT || exit 2
git checkout -q -- . 
DEMO_CMD=$(python3 -c "import json;print(json.load(open('$OUT/meta.json'))['demo_cmd'])")
run_demo() { ( cd $WT; timeout 120 bash -c "$DEMO_CMD" > $OUT/$1.out 2> $OUT/$1.err; echo $? > $OUT/$1.rc ); }
cargo build --offline -q -p laythe 2>/dev/null
run_demo without
git apply $OUT/patch.diff || { echo "APPLY FAILED"; exit 2; }
cargo build --offline -q -p laythe 2>/dev/null
run_demo with
cargo test --workspace --no-fail-fast --offline 2>&1 | grep -E "^test .* FAILED|^test result" > $OUT/tests.txt
git checkout -q -- .
FAILED=$(grep -c "FAILED$" $OUT/tests.txt | head -1)
python3 - <<PY
import json
out="$OUT"
failed=[l.split()[1] for l in open(out+"/tests.txt") if l.startswith("test ") and l.rstrip().endswith("FAILED")]
base={"math::utils::test::cos::call","math::utils::test::rand::call","math::utils::test::sin::call","env","utils"}
extra=[f for f in failed if f not in base]
w=open(out+"/with.out").read()+open(out+"/with.err").read()+open(out+"/with.rc").read()
wo=open(out+"/without.out").read()+open(out+"/without.err").read()+open(out+"/without.rc").read()
json.dump({"tests_failed":failed,"extra_failures":extra,"demo_differs":w!=wo,"rc_with":open(out+"/with.rc").read().strip(),"rc_without":open(out+"/without.rc").read().strip()},open(out+"/confirm.json","w"),indent=1)
print("$PID/$M", "extra_failures=",extra, "demo_differs=",w!=wo)
PY
