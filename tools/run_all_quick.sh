#!/bin/bash
# run every registered quick check in turn; log exit codes
cd /verif
for p in C01 C02 C03 C04 C05 C06 C07 C08 C09 C10 C11 C12 C13 C14 C15 C16 C17 C18 C19 C20; do
  s=$(date +%s)
  ./check $p --tier quick > work/quick_$p.out 2> work/quick_$p.err
  echo "$p exit=$? wall=$(( $(date +%s) - s ))s viol=$(grep -c '^VIOLATION' work/quick_$p.out) known=$(grep -c '^KNOWN-FINDING' work/quick_$p.out)"
done
