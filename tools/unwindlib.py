"""Trace validation of call frame / exception handler / nested loop events (hook class "exc") against Unwind.tla.
Used by the C04, C18 and C11 families (c_lang.py) and by the recursion / error families of C16 (c_native.py)."""
import json, os
import vlib


def records(run_id, events):
    """VM events of one run -> trace records (with the `reset` that starts the run)"""
    out = [{"ev": "reset", "f": -1, "n": -1, "c": -1, "r": "", "run": run_id}]
    seen = set()
    for e in events:
        ev = e.get("ev")
        if ev not in ("fpush", "fpop", "hpush", "hpop", "usearch", "uto", "ustop", "unhandled", "ucheck", "ucontinue", "uwhile", "ufinish",
                      "nenter", "nexit", "fsplit"):
            continue
        f = e.get("f", 0)
        if f not in seen:
            seen.add(f)
            # the first frame of a fiber is not pushed through the hooked path: the script's frame of the main fiber
            # (a launched fiber gets its frame from fsplit, which mentions the child before the child runs)
            out.append({"ev": "fpush", "f": f, "n": 1, "c": -1, "r": "", "run": run_id})
        rec = {"ev": ev, "f": f, "n": e.get("n", -1), "c": -1, "r": e.get("r", ""), "run": run_id}
        if ev == "fsplit":
            rec["c"] = e.get("n", -1)
            seen.add(rec["c"])
        out.append(rec)
    return out


def validate(v, pid, runs, describe):
    """runs: list of (run_id, events). describe(run_id) -> replay object for a violation. Returns number of events."""
    trace = []
    for rid, evs in runs:
        trace += records(rid, evs)
    if not trace:
        return 0
    os.makedirs(vlib.WORK, exist_ok=True)
    path = os.path.join(vlib.WORK, f"trace_unwind_{os.getpid()}.ndjson")
    with open(path, "w") as f:
        for e in trace:
            f.write(json.dumps(e) + "\n")
    r = vlib.tlc("Trace_Unwind", "Trace_Unwind", env={"TRACE": path}, workers=1, deque=True, timeout=3000, heap="16g")
    vlib.drop_trace(path, "unwind")
    if "NOT_CONSUMED" in r["out"] or r["distinct"] == 0 or any(e.startswith("Error:") for e in r["errors"]):
        raise vlib.ToolError("unwind trace validation did not complete:\n" + r["out"][-2500:])
    v.cov["states"] += r["distinct"]
    v.cov["transitions"] += r["states"]
    for rej in vlib.tlc_json(r["out"], "REJECT"):
        st = rej.get("state", {})
        v.violation(f"{rej['run']}: frame/handler event refused by Unwind.tla: {rej['ev']}(n={rej['n']}{', r=' + rej['r'] if rej['r'] else ''}) on fiber {rej['f']} "
                    f"in state frames={st.get('fr')} handlers={st.get('hs')} nested={st.get('ns')} st={st.get('st')}"[:500],
                    describe(rej["run"], rej))
    v.notes["unwind_events_validated"] = len(trace)
    v.notes["unwind_runs_validated"] = len(runs)
    return len(trace)
