"""Decode Laythe's encoded bytecode with the independent opcode table spec/opcodes.json."""
import json, os, struct
V = os.path.dirname(os.path.dirname(os.path.abspath(__file__)))
TABLE = {o["byte"]: o for o in json.load(open(os.path.join(V, "spec", "opcodes.json")))["ops"]}


def decode(fun):
    """fun: one entry of lvh dump 'funs'. Returns (instructions, error). Each instruction is a uniform record
    {pc, op, a, b, slot, len, caps}; caps encodes capture operands: local i -> i, enclosing i -> 1000 + i."""
    code = fun["code"]
    consts = fun["consts"]
    out = []
    pc = 0
    n = len(code)
    while pc < n:
        b = code[pc]
        if b not in TABLE:
            return out, f"unknown opcode {b} at {pc}"
        o = TABLE[b]
        ins = {"pc": pc, "op": o["name"], "a": 0, "b": 0, "slot": -1, "len": 1, "caps": []}
        p = pc + 1
        lay = [x for x in o["layout"].split(",") if x]
        first = True
        try:
            for part in lay:
                if part == "u8":
                    val = code[p]; p += 1
                elif part == "u16":
                    val = code[p] | (code[p + 1] << 8); p += 2
                elif part == "slot":
                    ins["slot"] = code[p] | (code[p + 1] << 8) | (code[p + 2] << 16) | (code[p + 3] << 24); p += 4
                    continue
                elif part == "captures":
                    k = ins["a"]
                    if k >= len(consts) or consts[k].get("k") != "fun":
                        return out, f"Closure at {pc}: constant {k} is not a function"
                    for _ in range(consts[k]["captures"]):
                        # CaptureIndex is a 2-byte enum {Local(u8)=tag 0, Enclosing(u8)=tag 1}: (tag, value)
                        tag, v = code[p], code[p + 1]; p += 2
                        ins["caps"].append(v if tag == 0 else 1000 + v)
                    continue
                if first:
                    ins["a"] = val; first = False
                else:
                    ins["b"] = val
        except IndexError:
            return out, f"truncated instruction at {pc}"
        ins["len"] = p - pc
        out.append(ins)
        pc = p
    return out, None
