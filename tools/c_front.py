"""C15: the front end is total.

Inputs: (a) a corpus of real programs (the repository's .lay fixtures, valid and invalid, and sources printed from the
generator families) mutated at token level (delete / duplicate / swap / replace / insert / truncate / keyword in
identifier position / delimiter unbalancing) and at byte level (delete / insert / replace incl. quotes, `$`, `{`,
backslash, NUL and non-ASCII); (b) every token sequence up to length 3 (thorough 4) over the language's token
alphabet; (c) boundary counts (locals, parameters, arguments, captures, constants, collection literals, jumps,
interpolation segments) on both sides of each limit; (d) long tokens and bounded nesting of every bracketing and
prefix construct; (e) random token soups.
Every input is compiled by the real pipeline (lvh dump: scanner, parser, resolver, compiler with the peephole pass, no
execution) under crash and hang isolation.  A sample of the rejected inputs is then run as a file (behind a printing
statement) and entered at the interactive prompt between definitions and probes.  All observed passes are turned into
event traces (submit / diag / reject / accept / exec / finish / probe) and TLC validates them against the contract
Frontend.tla: a pass ends, is rejected exactly when diagnosed, a rejected text executes nothing and leaves the session
as it was."""
import glob, json, os, random, re, itertools
import vlib

KEYWORDS = ["as", "break", "catch", "chan", "continue", "class", "else", "export", "false", "for", "fn", "if", "import", "in", "launch", "let",
            "nil", "return", "raise", "self", "super", "static", "trait", "true", "try", "type", "while", "and", "or"]
PUNCT = ["(", ")", "{", "}", "[", "]", ":", "?", ";", ",", ".", "-", "+", "*", "/", "=", "==", "!=", "<", "<=", ">", ">=", "!", "&", "|", "&&", "||",
         "->", "<-", "=>", "+=", "-=", "*=", "/=", "$", "${", "\"", "'", "\\", "#", "@", "..", "...", "::", "|x|", "||"]
LITS = ["x", "y", "f", "A", "0", "1", "1.5", "1e3", "\"s\"", "'s'", "\"a${x}b\"", "\"${\"", "\"${1}${2}\"", "Error", "print", "self.x", "_", "x?"]
TOKEN_RE = re.compile(r'''//[^\n]*|"(?:[^"\\]|\\.)*"|'(?:[^'\\]|\\.)*'|\d+(?:\.\d+)?(?:[eE][+-]?\d+)?|[A-Za-z_][A-Za-z0-9_]*\??|==|!=|<=|>=|->|<-|=>|\+=|-=|\*=|/=|&&|\|\||\S''')
# the alphabet of the exhaustive short sequences
ALPHA = ["let", "fn", "class", "if", "else", "while", "for", "in", "return", "break", "continue", "try", "catch", "raise", "launch", "chan", "import",
         "export", "self", "super", "static", "trait", "type", "x", "1", "\"s\"", "(", ")", "{", "}", "[", "]", ";", ",", ".", ":", "=", "+", "-", "!",
         "|", "||", "<-", "->", "=>", "?", "nil", "as"]


def tokenize(text):
    return TOKEN_RE.findall(text)


def corpus(rnd, n_gen):
    files = sorted(glob.glob("/repo/laythe_vm/fixture/**/*.lay", recursive=True))
    texts = []
    for f in files:
        try:
            t = open(f, encoding="utf-8", errors="replace").read()
        except OSError:
            continue
        if len(t) < 6000:
            texts.append(("fixture:" + os.path.relpath(f, "/repo/laythe_vm/fixture"), t))
    import gen, lang
    fams = [lambda: gen.program_c01(rnd)[0], lambda: gen.program_c02(rnd), lambda: gen.program_c03(rnd), lambda: gen.program_c04(rnd),
            lambda: gen.program_c11(rnd), lambda: gen.program_c18(rnd), lambda: gen.program_c10(rnd)]
    for i in range(n_gen):
        ast = fams[i % len(fams)]()
        lang.flatten(ast)
        src = lang.to_source(ast, "typed" if i % 2 else "canon")[0]
        if len(src) < 5000:
            texts.append((f"gen:{i}", src))
    return texts


def mutate_tokens(rnd, toks):
    toks = list(toks)
    if not toks:
        return rnd.choice(ALPHA)
    for _ in range(rnd.choice([1, 1, 1, 2, 3])):
        k = rnd.randrange(len(toks)) if toks else 0
        op = rnd.choice(["del", "dup", "swap", "rep", "ins", "trunc", "kw", "open", "close", "delpair", "repl_lit"])
        if not toks:
            toks = [rnd.choice(ALPHA)]
        elif op == "del": del toks[k]
        elif op == "dup": toks.insert(k, toks[k])
        elif op == "swap" and k + 1 < len(toks): toks[k], toks[k + 1] = toks[k + 1], toks[k]
        elif op == "rep": toks[k] = rnd.choice(KEYWORDS + PUNCT + LITS)
        elif op == "ins": toks.insert(k, rnd.choice(KEYWORDS + PUNCT + LITS))
        elif op == "trunc": toks = toks[:k]
        elif op == "kw":
            ids = [i for i, t in enumerate(toks) if re.fullmatch(r"[A-Za-z_]\w*", t) and t not in KEYWORDS]
            if ids: toks[rnd.choice(ids)] = rnd.choice(KEYWORDS)
        elif op == "open": toks.insert(k, rnd.choice(["(", "{", "[", "\"", "${", "|"]))
        elif op == "close": toks.insert(k, rnd.choice([")", "}", "]"]))
        elif op == "delpair":
            ids = [i for i, t in enumerate(toks) if t in "(){}[]"]
            if ids: del toks[rnd.choice(ids)]
        elif op == "repl_lit":
            ids = [i for i, t in enumerate(toks) if t[:1] in "\"'0123456789"]
            if ids: toks[rnd.choice(ids)] = rnd.choice(LITS + ["\"unterminated", "\"a${", "\"${x", "1.", "1e", "0x1", "1..2", "\"\\", "'${'${'${1}'}'}'"])
    sep = rnd.choice([" ", " ", "\n"])
    return sep.join(toks)


WRAPS = [("while true {\n", "\n}"), ("fn w() {\n", "\n}"), ("class W { m() {\n", "\n} }"), ("try {\n", "\n} catch e { }"), ("let w = || {\n", "\n};"),
         ("for q in [1] {\n", "\n}"), ("if true {\n", "\n}"), ("{\n", "\n}"), ("class W { static m() {\n", "\n} }"), ("class W { init() {\n", "\n} }"),
         ("fn w() { return || {\n", "\n}; }"), ("try { } catch e {\n", "\n}"), ("launch (|| {\n", "\n})();"), ("export fn w() {\n", "\n}")]
STMTS = ["launch f().x;", "launch f()[0];", "launch a.m().b;", "let q = || chan(size);", "fn mkc(size) { return || chan(size); }", "break;", "continue;", "return;", "return 1;", "return self;", "self.x = 1;", "super.m();", "export let z = 1;", "import std.math;", "raise Error(\"x\");",
         "let x = x;", "x = 1;", "undeclared;", "undeclared = 1;", "undeclared();", "let self = 1;", "class Inner { }", "fn inner() { return outer; }", "launch f();",
         "let c = chan(undeclared);", "<- undeclared;", "undeclared <- 1;", "for x in x { }", "try { } catch Error { }", "try { } catch e: undeclared { }",
         "let f = || { break; };", "let f = || x;", "fn g() { continue; }", "class K : undeclared { }", "class K : K { }", "let a: undeclared = 1;", "print(a0, a1, a2);"]


def mutate_lines(rnd, text):
    """mutations that mostly keep the text parseable, so that the resolver and the compiler are reached"""
    lines = text.split("\n")
    for _ in range(rnd.choice([1, 1, 2, 3])):
        k = rnd.randrange(len(lines))
        op = rnd.choice(["dup", "del", "swap", "wrap", "wrapall", "stmt", "ident", "move"])
        if op == "dup": lines.insert(k, lines[k])
        elif op == "del" and len(lines) > 1: del lines[k]
        elif op == "swap" and k + 1 < len(lines): lines[k], lines[k + 1] = lines[k + 1], lines[k]
        elif op == "wrap":
            j = min(len(lines), k + rnd.randint(1, 4)); a, b = rnd.choice(WRAPS)
            lines[k:j] = [a + "\n".join(lines[k:j]) + b]
        elif op == "wrapall":
            a, b = rnd.choice(WRAPS); lines = [a + "\n".join(lines) + b]
        elif op == "stmt": lines.insert(k, rnd.choice(STMTS))
        elif op == "ident":
            ids = sorted(set(re.findall(r"\b[A-Za-z_]\w*\b", text)) - set(KEYWORDS))
            if len(ids) >= 2:
                a, b = rnd.sample(ids, 2)
                lines[k] = re.sub(r"\b" + re.escape(a) + r"\b", b, lines[k])
        elif op == "move":
            l = lines.pop(k); lines.insert(rnd.randrange(len(lines) + 1), l)
    return "\n".join(lines)


BYTES = ['"', "'", "$", "{", "}", "(", ")", "\\", "\n", "\0", "\t", "\r", "é", "日", "\u2028", "\ufeff", "😀", "/", "*", ";", "|", "#", "`", "~", "\x7f"]


def mutate_bytes(rnd, text):
    if not text:
        return rnd.choice(BYTES)
    t = text
    for _ in range(rnd.choice([1, 1, 2, 4])):
        k = rnd.randrange(len(t)) if t else 0
        op = rnd.choice(["del", "ins", "rep", "trunc", "dupspan", "delspan"])
        if op == "del": t = t[:k] + t[k + 1:]
        elif op == "ins": t = t[:k] + rnd.choice(BYTES) + t[k:]
        elif op == "rep": t = t[:k] + rnd.choice(BYTES) + t[k + 1:]
        elif op == "trunc": t = t[:k]
        elif op == "dupspan":
            j = min(len(t), k + rnd.randint(1, 30)); t = t[:j] + t[k:j] + t[j:]
        else:
            j = min(len(t), k + rnd.randint(1, 30)); t = t[:k] + t[j:]
    return t


def boundary_inputs(tier):
    out = []
    def add(name, text): out.append((f"bound:{name}", text))
    for n in (254, 255, 256, 257):
        add(f"locals:{n}", "fn f() {\n" + "".join(f"  let v{i} = {i};\n" for i in range(n)) + "  return v0;\n}\nprint(f());")
        add(f"params:{n}", "fn f(" + ", ".join(f"p{i}" for i in range(n)) + ") { return p0; }")
        add(f"args:{n}", "fn f() { return 1; }\nf(" + ", ".join("1" for _ in range(n)) + ");")
        add(f"captures:{n}", "fn f() {\n" + "".join(f"  let v{i} = {i};\n" for i in range(n)) + "  return || " + " + ".join(f"v{i}" for i in range(n)) + ";\n}")
        add(f"list:{n}", "let l = [" + ", ".join(str(i) for i in range(n)) + "];")
        add(f"tuple:{n}", "let l = (" + ", ".join(str(i) for i in range(n)) + ");")
        add(f"map:{n}", "let l = {" + ", ".join(f"{i}: {i}" for i in range(n)) + "};")
        add(f"interp:{n}", 'let x = 1; let s = "' + "".join("a${x}" for _ in range(n)) + '";')
        add(f"fields:{n}", "class A { init() {\n" + "".join(f"  self.f{i} = {i};\n" for i in range(n)) + "} }")
        add(f"methods:{n}", "class A {\n" + "".join(f"  m{i}() {{ return {i}; }}\n" for i in range(n)) + "}")
        add(f"modvars:{n}", "".join(f"let g{i} = {i};\n" for i in range(n)))
        add(f"catches:{n}", "try { 1; }" + "".join(f" catch e{i}: Error {{ }}" for i in range(n)))
        add(f"imports:{n}", "import std.math:{" + ", ".join("abs as a%d" % i for i in range(n)) + "};")
    for n in (65534, 65535, 65536, 65537) if tier == "thorough" else (65535, 65536):
        add(f"constants:{n}", "fn f() {\n" + "".join(f"  {i + 0.5};\n" for i in range(n)) + "}")
        add(f"listbig:{n}", "let l = [" + ",".join("1" for _ in range(n)) + "];")
        add(f"strings:{n}", "let l = [" + ",".join(f'"s{i}"' for i in range(n)) + "];")
    for n in (6000, 22000):          # jumps beyond 64 KiB of bytecode
        add(f"jump-if:{n}", "let x = 1;\nif x == 1 {\n" + "x = x + 1;\n" * n + "} else { x = 0; }")
        add(f"jump-while:{n}", "let x = 1;\nwhile x < 2 {\n" + "x = x + 1;\n" * n + "}")
        add(f"jump-and:{n}", "let x = true and (" + " + ".join("1" for _ in range(n * 2)) + ");")
    for n in (1000, 100000) + ((1000000,) if tier == "thorough" else ()):
        add(f"longident:{n}", "let " + "a" * n + " = 1;")
        add(f"longnumber:{n}", "let a = " + "9" * n + ";")
        add(f"longfrac:{n}", "let a = 0." + "9" * n + ";")
        add(f"longstring:{n}", 'let a = "' + "s" * n + '";')
        add(f"longcomment:{n}", "// " + "c" * n + "\nlet a = 1;")
        add(f"longchain-plus:{n // 20}", "let a = " + " + ".join("1" for _ in range(n // 20)) + ";")
        add(f"longchain-dot:{n // 20}", "let a = nil; a" + ".b" * (n // 20) + ";")
        add(f"longchain-call:{n // 20}", "let a = nil; a" + "()" * (n // 20) + ";")
        add(f"longchain-index:{n // 20}", "let a = nil; a" + "[0]" * (n // 20) + ";")
        add(f"manystmts:{n // 20}", "let a = 1;\n" + "a = a + 1;\n" * (n // 20))
    # bounded nesting: every bracketing / prefix construct
    depths = (10, 100, 200, 255, 256, 300, 500) if tier == "quick" else (10, 100, 200, 255, 256, 300, 500, 700)
    for d in depths:
        add(f"nest-paren:{d}", "let a = " + "(" * d + "1" + ")" * d + ";")
        add(f"nest-list:{d}", "let a = " + "[" * d + "1" + "]" * d + ";")
        add(f"nest-tuple:{d}", "let a = " + "(" * d + "1,2" + ")" * d + ";")
        add(f"nest-map:{d}", "let a = " + "{1: " * d + "1" + "}" * d + ";")
        add(f"nest-block:{d}", "{" * d + "1;" + "}" * d)
        add(f"nest-if:{d}", "if true { " * d + "1;" + " }" * d)
        add(f"nest-elseif:{d}", "if false { 1; }" + " else if false { 1; }" * d + " else { 2; }")
        add(f"nest-while:{d}", "while false { " * d + "break;" + " }" * d)
        add(f"nest-for:{d}", "for x in [] { " * d + "continue;" + " }" * d)
        add(f"nest-try:{d}", "try { " * d + "1;" + " } catch e { }" * d)
        add(f"nest-fn:{d}", "".join(f"fn f{i}() {{ " for i in range(d)) + "return 1;" + " }" * d)
        add(f"nest-lambda:{d}", "let a = " + "|| " * d + "1;")
        add(f"nest-lambda-block:{d}", "let a = " + "|| { return " * d + "1" + "; }" * d + ";")
        add(f"nest-class:{d}", "".join(f"class C{i} {{ m() {{ " for i in range(d)) + "return 1;" + " } }" * d)
        add(f"nest-not:{d}", "let a = " + "!" * d + "true;")
        add(f"nest-neg:{d}", "let a = " + "- " * d + "1;")
        add(f"nest-call:{d}", "fn f(x) { return x; }\nlet a = " + "f(" * d + "1" + ")" * d + ";")
        add(f"nest-index:{d}", "let l = [0];\nlet a = " + "l[" * d + "0" + "]" * d + ";")
        add(f"nest-interp:{d}", "let a = " + "\"${" * d + "1" + "}\"" * d + ";")
        add(f"nest-ternary:{d}", "let a = " + "true ? 1 : " * d + "0;")
        add(f"nest-assign:{d}", "let a = 1;\n" + "a = " * d + "1;")
        add(f"nest-and:{d}", "let a = " + "true and (" * d + "true" + ")" * d + ";")
        add(f"nest-launch:{d}", "fn f() { " + "launch " * d + "f(); }")
        add(f"nest-recv:{d}", "let c = chan(1);\nlet a = " + "<- " * d + "c;")
        add(f"nest-send:{d}", "let c = chan(1);\n" + "c <- " * d + "1;")
        add(f"nest-type:{d}", "let a: " + "List<" * d + "number" + ">" * d + " = nil;")
        add(f"nest-fntype:{d}", "let a: " + "(number) -> " * d + "number = nil;")
        add(f"unclosed-paren:{d}", "let a = " + "(" * d + "1;")
        add(f"unclosed-block:{d}", "{" * d + "1;")
        add(f"unopened:{d}", "1;" + "}" * d + ")" * d + "]" * d)
        add(f"unclosed-interp:{d}", "let a = " + "\"${" * d)
    return out


# texts the sub-agents and probing found dangerous; kept as fixed inputs next to the generated ones
FIXED = [
    "while true { fn f(1) {} }", "while true { let f = || { break; }; break; }", "try { [1][3]; } catch Error { }", "for x in x { }",
    "launch f().x;", "launch f()[0];", "launch;", "launch [1,2,3];", "fn f(size) { return || chan(size); }", "chan(capacity);",
    "let x = x;", "fn f() { return f; } let f = 1;", "class A : A {}", "self;", "super.x;", "class A { init() { return 1; } }", "return 1;", "break;", "continue;",
    "fn f() { break; }", "while true { class A { m() { break; } } }", "while true { fn g() { continue; } break; }", "for x in [1] { let f = || { continue; }; }",
    "try { } catch e: { }", "try { } catch : Error { }", "try { } catch e: Error, f: Error { }", "try { }", "catch e { }", "let a = try { 1; };",
    "import ;", "import std.;", "import std.math:{};", "import std.math:{abs as};", "export;", "export 1;", "fn f() { export let x = 1; }", "export let x; export let x;",
    "let a = |x, x| x;", "fn f(a, a) {}", "class A { m() {} m() {} }", "class A { static static m() {} }", "class A { init() {} init() {} }",
    "let a = 1; let a = 2;", "fn f() { let a = 1; let a = 2; }", "{ let a = a; }", "let a: = 1;", "let a: number number = 1;", "fn f() -> { }", "fn f(a: ) {}",
    "type A = ;", "trait T { }", "trait T { m(); }", "trait T { m() -> number; f: string; }", "type A = number | string | nil;", "class A<T> { }", "class A<T: > { }",
    "fn f<T>(a: T) -> T { return a; }", "let f = |a: number| -> number a;", "let a = 1 as number;", "let a = 1 as;", "let t: (number, string) = (1, \"a\");",
    "\"${\"${\"${1}\"}\"}\";", "\"${\";", "\"${}\";", "\"$\";", "\"\\u{110000}\";", "\"\\u{D800}\";", "\"\\u{\";", "\"\\x\";", "\"\\\";", "'${'${1}'}';",
    "1.;", "1.e5;", "1e;", "1e+;", ".5;", "1..2;", "0x10;", "1_000;", "1e999;", "1e-999;", "99999999999999999999999999999999999999;",
    "a.b = c.d = e.f;", "a[1] += 2;", "a.b += 2;", "1 = 2;", "f() = 2;", "a + b = 2;", "nil = 1;", "self = 1;", "super = 1;", "let nil = 1;", "let self = 1;",
    "class A { m() { return || self; } }", "class A { static m() { return self; } }", "class A : B { m() { super.m(); } }", "fn f() { return super.m(); }",
    "class A { m() { fn g() { return super.m(); } } }", "class A { init() { let f = || super.init(); } }", "let a = [1, 2,]; let b = (1,); let c = {1: 2,};",
    "let a = [,];", "let a = (,);", "let a = {,};", "let a = {1};", "let a = {1:};", "let a = {:1};", "f(,);", "f(1,);", "fn f(,) {}", "fn f(a,) {}", "|,| 1;", "||;",
    "let ch = chan(; ch <- ;", "<- ;", "ch <- <- ch;", "launch launch f();", "launch f;", "launch f()();", "launch a.b();", "launch A();", "launch || 1;", "launch (f)();",
    "if {}", "if true", "if true {} else", "if true {} else if", "while {}", "for in {}", "for x {}", "for x in {}", "for x in y", "for 1 in y {}", "for x, y in z {}",
    "a ? b : c ? d : e;", "a ? : c;", "a ? b;", "? b : c;", "a ?? b;", "!;", "-;", "+1;", "*1;", "1 +;", "1 + * 2;", "(1;", "1);", "[1;", "1];", "{1;", "1};",
    "#!/usr/bin/laythe\nprint(1);", "\ufeffprint(1);", "print(1)\r\nprint(2);", "print(1);\0print(2);", "/* c */ 1;", "// only a comment", "", " ", "\n\n\n", ";", ";;;",
]


# declarations of the names the small inputs use, so that they get past the resolver and into the compiler
PRELUDE = ('class A { init() { self.x = 1; self.b = self; } m() { return self; } static s() { return 1; } }\n'
           'class B : A { m() { return super.m(); } }\nfn f() { return A(); }\nfn g(p) { return p; }\n'
           'let x = 1; let y = 2; let z = 3; let a = A(); let b = a; let c = chan(1); let ch = chan(1); let l = [0, 1]; let m = {1: 2}; let t = (1, 2);\n'
           'let e = nil; let s = "s"; let size = 1; let capacity = 1; let outer = 1; let a0 = 0; let a1 = 1; let a2 = 2; let K = A; let T = A; let _ = 0;\n')


# how a diagnostic starts on stderr is learnt from the VM (a text that is certainly wrong), not assumed
DIAG_MARK = ["error:"]


def learn_diag_mark(binary):
    r = vlib.run_batch(binary, [{"id": "probe", "files": {"/v/main.lay": "let = ;\n"}, "main": "/v/main.lay"}], per_case_timeout=30)["probe"]
    err = r.get("stderr", "").lstrip()
    if r.get("status") == "compile_error" and err:
        first = err.split(None, 1)[0]
        if first:
            DIAG_MARK[0] = first


def events_of_run(case_id, r):
    """one file run -> trace events for Frontend.tla"""
    ev = [{"ev": "start", "session": False, "case": case_id}]
    st = r.get("status")
    if st not in ("ok", "runtime_error", "compile_error"):
        return ev + [{"ev": "submit", "case": case_id}, {"ev": "fail", "how": str(st), "case": case_id}]
    ev.append({"ev": "submit", "case": case_id})
    k = sum(1 for l in r.get("stderr", "").splitlines() if l.startswith(DIAG_MARK[0]))
    if st == "compile_error" and k == 0 and r.get("stderr", "").strip():
        k = 1            # something was reported, in a form the probe did not teach us: still a diagnostic
    ev += [{"ev": "diag", "case": case_id}] * k
    printed = bool(r.get("stdout"))
    if st == "compile_error":
        if printed:
            ev.append({"ev": "exec", "names": [], "case": case_id})
        ev.append({"ev": "reject", "status": "compile_error", "case": case_id})
    else:
        ev.append({"ev": "accept", "case": case_id})
        if printed:
            ev.append({"ev": "exec", "names": [], "case": case_id})
        ev.append({"ev": "finish", "status": st, "case": case_id})
    return ev


def run(pid, tier, replay=None):
    v = vlib.Verdict(pid, tier)
    rnd = random.Random(vlib.seed() * 977 + 15)
    binary = vlib.build_harness()
    learn_diag_mark(binary)
    inputs = []       # (id, text)
    if not replay:
        # design level: every interleaving of Frontend.tla's actions keeps its invariants and action properties
        r = vlib.tlc("MC_Frontend", "MC_Frontend", workers=2, timeout=600)
        if "No error has been found" not in r["out"]:
            if "violated" in r["out"]:
                v.violation("Frontend.tla: the contract's own properties are violated", {"tlc": r["out"][-3000:]})
                return v.finish()
            raise vlib.ToolError("TLC on Frontend.tla did not complete:\n" + r["out"][-1500:])
        v.cov["states"] += r["distinct"]
        v.cov["transitions"] += r["states"]
        v.notes["frontend_design_states"] = r["distinct"]
    if replay:
        rp = json.load(open(replay))["replay"]
        inputs = [(rp["id"], rp["text"])]
    else:
        n_mut = 15000 if tier == "quick" else 400000
        texts = corpus(rnd, 120 if tier == "quick" else 1500)
        toks = [(tid, tokenize(t)) for tid, t in texts]
        for tid, t in texts:
            inputs.append(("corpus:" + tid, t))
        for i in range(n_mut):
            tid, tk = rnd.choice(toks)
            inputs.append((f"tok:{i}:{tid}", mutate_tokens(rnd, tk)))
        for i in range(n_mut):
            tid, t = rnd.choice(texts)
            inputs.append((f"byte:{i}:{tid}", mutate_bytes(rnd, t)))
        for i in range(n_mut * 2):
            tid, t = rnd.choice(texts)
            inputs.append((f"line:{i}:{tid}", mutate_lines(rnd, t)))
        for i in range(n_mut // 2):
            inputs.append((f"soup:{i}", " ".join(rnd.choice(KEYWORDS + PUNCT + LITS) for _ in range(rnd.randint(1, 25)))))
        L = 3 if tier == "quick" else 4
        k = 0
        for n in range(1, L + 1):
            alpha = ALPHA if n <= 3 else ALPHA[::2]
            for seq in itertools.product(alpha, repeat=n):
                inputs.append((f"seq:{k}", " ".join(seq)))
                k += 1
        inputs += boundary_inputs(tier)
        for i, t in enumerate(FIXED):
            inputs.append((f"fixed:{i}", t))
            inputs.append((f"fixedfn:{i}", "fn wrap() {\n" + t + "\n}"))
            inputs.append((f"fixedcls:{i}", "class W { m() {\n" + t + "\n} }"))
            inputs.append((f"fixedpre:{i}", PRELUDE + t))
            inputs.append((f"fixedprefn:{i}", PRELUDE + "fn wrap() {\n" + t + "\n}"))
            inputs.append((f"fixedprecls:{i}", PRELUDE + "class W : A { m() {\n" + t + "\n} }"))
        # the same small inputs behind declarations of the names they use
        for iid, t in [(iid, t) for iid, t in inputs if iid.startswith(("seq:", "soup:"))]:
            inputs.append(("pre" + iid, PRELUDE + t))
    # ---- pass 1: compile everything (no execution)
    cases = [{"id": f"i{j}", "src": t, "repl": False} for j, (iid, t) in enumerate(inputs)]
    res = vlib.run_batch(binary, cases, subcmd="dump", per_case_timeout=60)
    outcome = collections_counter()
    rejected, accepted = [], []
    seen_fail = {}
    for j, (iid, t) in enumerate(inputs):
        r = res[f"i{j}"]
        st = r.get("status")
        outcome[st] += 1
        if st == "ok":
            accepted.append(j)
        elif st == "compile_error":
            if r.get("diags", 0) < 1:
                v.violation(f"{iid}: compile error status without a diagnostic", {"id": iid, "text": t[:20000], "observed": r})
            rejected.append(j)
        else:
            sig = (str(r.get("panic"))[:160], st)
            seen_fail[sig] = seen_fail.get(sig, 0) + 1
            if seen_fail[sig] <= 3:
                v.violation(f"{iid}: the front end does not end normally on this text: {st} {str(r.get('panic'))[:220]} {r.get('stderr', '')[-160:]!r}",
                            {"id": iid, "text": t[:20000], "observed": {"status": st, "panic": r.get("panic"), "stderr": r.get("stderr", "")[-400:]}})
    # ---- pass 2: run a sample of the rejected texts as files behind a printing statement, and the accepted ones that are short
    trace = []
    sample_r = rejected if len(rejected) <= 1500 or tier == "thorough" and len(rejected) <= 30000 else rnd.sample(rejected, 1500 if tier == "quick" else 30000)
    cases = [{"id": f"r{j}", "files": {"/v/main.lay": 'print("S");\n' + inputs[j][1]}, "main": "/v/main.lay"} for j in sample_r if len(inputs[j][1]) < 200000]
    res2 = vlib.run_batch(binary, cases, per_case_timeout=30)
    runs = 0
    for c in cases:
        j = int(c["id"][1:])
        r = res2[c["id"]]
        if r.get("status") in ("hang", "timeout"):
            continue          # the prefixed text may be a different, accepted program that loops: not a front end matter
        runs += 1
        trace += events_of_run(f"run|{j}", r)
    # ---- pass 3: sessions.  def a ; <rejected single-line text> ; probe a ; def b ; <rejected text> ; probe a b
    single = [j for j in rejected if "\n" not in inputs[j][1] and "\r" not in inputs[j][1] and len(inputs[j][1]) < 2000]
    rnd.shuffle(single)
    single = single[:600 if tier == "quick" else 20000]
    sessions = []
    for s in range(0, len(single) - 1, 2):
        a, b = single[s], single[s + 1]
        lines = ["let qa0 = 41;", inputs[a][1], 'print("#P qa0", qa0);', "let qb0 = 42;", inputs[b][1], 'print("#P qa0", qa0);', 'print("#P qb0", qb0);']
        sessions.append((a, b, lines))
    cases = [{"id": f"s{k}", "repl": lines} for k, (a, b, lines) in enumerate(sessions)]
    res3 = vlib.run_batch(binary, cases, per_case_timeout=30) if cases else {}
    for k, (a, b, lines) in enumerate(sessions):
        r = res3[f"s{k}"]
        cid = f"session|{a}|{b}"
        ev = [{"ev": "start", "session": True, "case": cid}]
        if r.get("status") not in ("ok", "runtime_error", "compile_error"):
            ev += [{"ev": "submit", "case": cid}, {"ev": "fail", "how": str(r.get("status")), "case": cid}]
            trace += ev
            continue
        out = r.get("stdout", "")
        # the probes after the first and after the second rejected entry
        first = out.count("#P qa0 41")
        ev += [{"ev": "submit", "case": cid}, {"ev": "accept", "case": cid}, {"ev": "exec", "names": ["qa0"], "case": cid}, {"ev": "finish", "status": "ok", "case": cid}]
        ev += [{"ev": "submit", "case": cid}, {"ev": "diag", "case": cid}, {"ev": "reject", "status": "compile_error", "case": cid}]
        ev += [{"ev": "probe", "names": ["qa0"] if first >= 1 else [], "case": cid}]
        ev += [{"ev": "submit", "case": cid}, {"ev": "accept", "case": cid}, {"ev": "exec", "names": ["qb0"], "case": cid}, {"ev": "finish", "status": "ok", "case": cid}]
        ev += [{"ev": "submit", "case": cid}, {"ev": "diag", "case": cid}, {"ev": "reject", "status": "compile_error", "case": cid}]
        vis = (["qa0"] if first >= 2 else []) + (["qb0"] if "#P qb0 42" in out else [])
        ev += [{"ev": "probe", "names": vis, "case": cid}]
        trace += ev
    # ---- TLC validates every recorded pass against the contract
    os.makedirs(vlib.WORK, exist_ok=True)
    path = os.path.join(vlib.WORK, f"trace_front_{os.getpid()}.ndjson")
    with open(path, "w") as f:
        for e in trace:
            e.setdefault("status", ""); e.setdefault("names", []); e.setdefault("session", False); e.setdefault("how", "")
            f.write(json.dumps(e) + "\n")
    if trace:
        r = vlib.tlc("Trace_Frontend", "Trace_Frontend", env={"TRACE": path}, workers=1, deque=True, timeout=3000, heap="8g")
        if "NOT_CONSUMED" in r["out"] or r["distinct"] == 0 or any(e.startswith("Error:") for e in r["errors"]):
            raise vlib.ToolError("front end trace validation did not complete:\n" + r["out"][-2500:])
        v.cov["states"] += r["distinct"]
        v.cov["transitions"] += r["states"]
        for rej in vlib.tlc_json(r["out"], "REJECT"):
            parts = rej["case"].split("|")
            if parts[0] == "run":
                j = int(parts[1])
                rr = res2[f"r{j}"]
                v.violation(f"{inputs[j][0]} run as a file: step '{rej['ev']}' is refused by Frontend.tla in phase {rej['phase']} with {rej['diags']} diagnostics "
                            f"(status {rr.get('status')}, stdout {rr.get('stdout', '')[:60]!r})",
                            {"id": inputs[j][0], "text": inputs[j][1][:20000], "mode": "run", "observed": {"status": rr.get("status"), "stdout": rr.get("stdout", "")[:300],
                             "stderr": rr.get("stderr", "")[-600:], "panic": rr.get("panic")}})
            else:
                a, b = int(parts[1]), int(parts[2])
                k = next(i for i, s in enumerate(sessions) if s[0] == a and s[1] == b)
                rr = res3[f"s{k}"]
                v.violation(f"session with rejected entries {inputs[a][1][:80]!r} and {inputs[b][1][:80]!r}: step '{rej['ev']}' is refused by Frontend.tla "
                            f"(status {rr.get('status')}, panic {str(rr.get('panic'))[:120]})",
                            {"id": f"session:{inputs[a][0]}+{inputs[b][0]}", "text": "\n".join(sessions[k][2]), "mode": "repl",
                             "observed": {"status": rr.get("status"), "stdout": rr.get("stdout", "")[:400], "stderr": rr.get("stderr", "")[-600:], "panic": rr.get("panic")}})
    vlib.drop_trace(path, "frontend")
    v.cov["evaluations"] = len(inputs) + runs + len(sessions)
    v.cov["distinct_nontrivial"] = len({t for _, t in inputs})
    v.cov["traces_validated_against_impl"] = runs + len(sessions)
    v.cov["rule"] = ("one evaluation = one text compiled by the real pipeline (lvh dump) or one recorded pass (file run / session) validated by TLC against "
                     "Frontend.tla; non-trivial = distinct text")
    v.notes["compile_outcomes"] = dict(outcome)
    v.notes["file_runs_validated"] = runs
    v.notes["sessions_validated"] = len(sessions)
    v.notes["trace_events"] = len(trace)
    v.assumptions = [f"diagnostics are the blocks on stderr that start like the one reported for `let = ;` ({DIAG_MARK[0]!r})", "nesting is exercised up to depth 500 (700 in thorough) on an 8 MiB host stack",
                     "texts that compile are not run here (whether an accepted program can crash the runtime is C16)"]
    for iid, t in inputs[:2] + inputs[len(inputs) // 2: len(inputs) // 2 + 2] + inputs[-2:]:
        v.cov["samples"].append({"id": iid, "text": t[:300]})
    return v.finish()


def collections_counter():
    import collections
    return collections.Counter()
