"""C16: no accepted program can crash the runtime.

(1) call matrix.  The signatures the VM registers are read from the running VM (lvh natives).  TLC enumerates on
    Natives.tla every call  native x argument kinds  up to MaxArgs explicit arguments and decides the verdict of the
    gate in front of the body (arity / kind / body).  Every call is instantiated with concrete values of those kinds
    (several per kind, boundary values included), run on the VM inside try/catch, and must
      - not end the process in a panic, abort, fault or hang,
      - be refused by the gate exactly when the specification says so (read off the gate's own messages).
(2) program families whose outcome is known by construction: unbounded recursion through every kind of call
    (functions, methods, initialisers, closures, bound methods, .call, native callbacks of each adaptor) in cycles of
    1-3 kinds must end in a catchable error and the program continues; non-callables called; things raised that are
    not errors; errors raised while another one is handled; error classes with odd initialisers; exit() at every
    depth (callbacks, fibers, handlers); inheriting from built-in classes; blocking channel operations under a
    native callback (known finding).
Both debug and release builds in the thorough tier."""
import json, os, random, re, collections, itertools
import vlib, unwindlib

HEADER = '''class Obj0 { init() { self.f = 1; } m(a) { return a; } }
fn plainfn(a) { return a; }
fn plainfn0() { return 1; }
fn plainfn2(a, b) { return a; }
fn mkcap() { let c = 1; return |x| { c = c + 1; return x; }; }
fn mkcap2() { let c = 1; return |x, y| { c = c + 1; return c; }; }
fn mkcap0() { let c = 1; return || { c = c + 1; return c; }; }
let cap1 = mkcap();
let cap2 = mkcap2();
let cap0 = mkcap0();
'''

POOL = {
    "nil": ["nil"],
    "bool": ["true", "false"],
    "num": ["0", "1", "-1", "0.5", "2", "3", "255", "256", "1e18", "(0/0)", "(1/0)", "(-1/0)", "-0.5", "(0 * -1)", "-2", "1e300", "4294967296"],
    "str": ['""', '"a"', '"é日"', '"a,b"', '" "', '"héllo wörld"', '"a+"', '"("', '"12"', '"-1.5"', '"x.lay"', '"1e999"', '"+5"', '"."', '" 12 "', '"-"',
            '"0x10"', '"(a)(b)?"', '"[a-"', '"a\tb"', '"😀"', '"/v/nope/file.txt"'],
    "list": ["[]", "[1, 2, 3]", "[nil]", '[[1], "a"]', "[3, 1, 2, 5, 4, 9, 8, 7]"],
    "map": ["{}", '{"a": 1}', "{1: 2, nil: 3}"],
    "tuple": ["(1, 2)", "(nil, nil, nil)", '("a", (1, 2))'],
    "fun": ["plainfn", "plainfn0", "plainfn2"],
    "closure": ["cap1", "cap2", "cap0"],
    "native": ["assertEq", "clock"],
    "method": ["[1].push", '"a".has', "Obj0().m"],
    "class": ["List", "Obj0", "Error", "Object"],
    "inst": ["Obj0()", 'Error("m")', "Object()"],
    "iter": ["[1, 2].iter()", "3.times()", '"ab".iter()', "[].iter()"],
    "chan": ["chan(1)", "chan()"],
}

RECV = {
    "Number": ["7", "0.5", "(0/0)", "-3"], "String": ['"héllo wörld"', '""'], "List": ["[3, 1, 2]", "[]", "[1, 2, 3, 4, 5, 6, 7, 8, 9]"],
    "Map": ['{"a": 1, 2: "b"}', "{}"], "Tuple": ["(1, 2, 3)"], "Iter": ["[1, 2, 3].iter()", "[].iter()", "2.times()"],
    "Bool": ["true"], "Nil": ["nil"], "Object": ["Obj0()", "Object()"], "Class": ["Tuple", "Obj0"], "Closure": ["cap1", "cap0"],
    "Fun": ["plainfn", "plainfn0"], "Method": ["[1].push", "Obj0().m"], "Native": ["assertEq"], "Channel": ["chan(2)", "chan()"],
    "Module": ["math"], "RegExp": ['RegExp("a+")', 'RegExp("(a)(b)?")'],
}

SKIP = {("", "exit")}          # exit ends the process: its calls run one per program (see exit_cases)


def load_table(binary):
    import subprocess
    p = subprocess.run([binary, "natives"], capture_output=True, text=True, timeout=120)
    if p.returncode != 0:
        raise vlib.ToolError("lvh natives failed: " + p.stderr[-500:])
    dump = json.loads(p.stdout)
    table = []
    for i, n in enumerate(dump):
        s = n["sig"]
        table.append({"id": i + 1, "arity": s["arity"], "min": s["min"], "max": s["max"], "method": bool(s["is_method"]), "params": s["params"]})
    return dump, table


def imports_for(n):
    mod, owner = n.get("module"), n.get("owner")
    out = ["import std.math;"] if owner == "Module" else []
    if mod:
        if owner:
            out.append(f"import {mod}:{{{owner}}};")
        else:
            out.append(f"import {mod}:{{{n['name']}}};")
    return out


def receivers(n):
    owner = n.get("owner")
    if n.get("instance"):
        return [owner]
    if n["static"]:
        return [owner]
    if owner in RECV:
        return RECV[owner]
    if owner and owner.endswith("Error"):
        return [f'{owner}("m")']
    return None


def call_source(n, recv, vals):
    """source of one call; None when it cannot be written (index operators with another count)"""
    name = n["name"]
    if not n.get("owner"):
        return f"{name}({', '.join(vals)})"
    if name == "[]":
        return f"{recv}[{vals[0]}]" if len(vals) == 1 else None
    if name == "[]=":
        return f"{recv}[{vals[1]}] = {vals[0]}" if len(vals) == 2 else None
    return f"{recv}.{name}({', '.join(vals)})"


# ---- how the gate's refusals look is learnt from the VM itself, so that rewording a message is not an alarm
PROBES_A = [("arity", "clock(1)", "clock"), ("arity", "Error()", "init"), ("arity", "[1].slice(1, 2, 3)", "slice"),
            ("kind", '"a".has(1)', "has"), ("kind", "[1].slice(nil)", "slice")]
PROBES_B = [("arity", "assert()", "assert"), ("arity", "ValueError()", "init"), ("arity", '"a".slice(1, 2, 3)', "slice"),
            ("arity", "[1].insert(1)", "insert"), ("kind", "[1].remove(true)", "remove"), ("kind", '"a".slice("x")', "slice"),
            ("kind", "assert(1)", "assert")]


def generalise(msg, name):
    """a refusal message of the native `name` -> regex source with the name, numbers, kinds and quoted text left open"""
    pat = re.escape(msg)
    pat = pat.replace(re.escape(name), "\x00NAME\x00")
    pat = re.sub(r"\d+", r"\\d+", pat)
    pat = re.sub(r'\\"[^"]*\\"', '"[^"]*"', pat)
    pat = re.sub(r"\b(object|boolean|number|string|callable|iterator|nil)\b", r"\\w+", pat)
    return pat


def calibrate(binary):
    """-> (patterns {verdict: [regex source with NAME]}, trusted).  Learnt from PROBES_A, trusted if they also
    recognise every refusal of PROBES_B (other natives, other counts)."""
    def run(probes):
        src = "\n".join(f'try {{ {call}; print("#~", {k}, "ok"); }} catch e {{ print("#~", {k}, "err", e.cls().name(), e.message); }}' for k, (_, call, _) in enumerate(probes))
        r = vlib.run_batch(binary, [{"id": "cal", "files": {"/v/main.lay": src}, "main": "/v/main.lay"}], per_case_timeout=30)["cal"]
        out = {}
        for line in r.get("stdout", "").splitlines():
            parts = line.split(" ", 4)
            if len(parts) >= 3 and parts[0] == "#~" and parts[1].isdigit():
                out[int(parts[1])] = line.split(" ", 2)[2]
        return out
    pats = {"arity": [], "kind": []}
    got = run(PROBES_A)
    for k, (verdict, call, name) in enumerate(PROBES_A):
        line = got.get(k, "")
        if not line.startswith("err "):
            return pats, False
        msg = (line.split(" ", 2) + ["", ""])[2]
        p = generalise(msg, name)
        if p not in pats[verdict]:
            pats[verdict].append(p)
    gotb = run(PROBES_B)
    trusted = True
    for k, (verdict, call, name) in enumerate(PROBES_B):
        line = gotb.get(k, "")
        if not line.startswith("err ") or classify(name, line, pats) != verdict:
            trusted = False
    return pats, trusted


def classify(name, line, pats):
    msg = (line.split(" ", 2) + ["", ""])[2]
    for verdict in ("arity", "kind"):
        for p in pats[verdict]:
            if re.fullmatch(p.replace("\x00NAME\x00", re.escape(name)), msg):
                return verdict
    return "body"


def observed_verdict(name, line, pats):
    """line = 'ok' or 'err <Class> <message>' -> 'ok' | 'arity' | 'kind' | 'body-error'"""
    if line == "ok":
        return "ok"
    c = classify(name, line, pats)
    return c if c != "body" else "body-error"


def verdict_mismatch(spec, got, trusted):
    """is the observation incompatible with the specification's verdict?  When the gate's messages could not be
    learnt reliably (trusted = False) only the outcomes that need no message are judged."""
    if spec == "body":
        return got in ("arity", "kind")
    # the gate must refuse: a call that went through is always wrong; an error that is not the gate's own refusal
    # means the body ran (only decidable when the refusals are recognisable)
    if got == "ok":
        return True
    if not trusted:
        return False
    return got != spec


def build_calls(dump, calls, rnd, variants):
    """-> list of dict(ni, args, verdict, recv, vals, src, imports)"""
    out = []
    for c in calls:
        n = dump[c["ni"] - 1]
        if ((n.get("owner") or ""), n["name"]) in SKIP:
            continue
        recvs = receivers(n) if n.get("owner") else [None]
        if recvs is None:
            continue
        # the concrete values only matter when the body runs
        for _ in range(variants * 4 if c["verdict"] == "body" else 1):
            recv = rnd.choice(recvs)
            vals = [rnd.choice(POOL[k]) for k in c["args"]]
            src = call_source(n, recv, vals)
            if src is None:
                continue
            out.append({"ni": c["ni"], "args": c["args"], "verdict": c["verdict"], "recv": recv, "vals": vals, "src": src,
                        "imports": imports_for(n), "name": n["name"], "owner": n.get("owner") or "", "module": n.get("module") or ""})
    return out


def program_of(chunk):
    imps = sorted({i for c in chunk for i in c["imports"]})
    lines = imps + [HEADER]
    for k, c in enumerate(chunk):
        lines.append(f'try {{ {c["src"]}; print("#~", {k}, "ok"); }} catch e {{ print("#~", {k}, "err", e.cls().name(), e.message); }}')
    lines.append('print("#~ end");')
    return "\n".join(lines)


def run_matrix(v, binary, built, label, per_program=250, extra=None):
    """runs every call: first in programs of per_program calls; a program that dies pins the call in flight and
    its remaining calls are rerun one per program, so the number of rounds does not depend on how many calls die"""
    results = {}       # id(call) -> line
    crashes = []

    def parse(r, chunk):
        seen = {}
        ended = False
        for line in r.get("stdout", "").splitlines():
            # natives that write to stdout themselves may leave text in front of the marker
            at = line.find("#~ ")
            if at < 0:
                continue
            line = line[at:]
            if line == "#~ end":
                ended = True
            else:
                parts = line.split(" ", 2)
                if len(parts) == 3 and parts[1].isdigit():
                    seen[int(parts[1])] = parts[2]
        for j, c in enumerate(chunk):
            if j in seen:
                results[id(c)] = seen[j]
        return seen, ended

    chunks = [built[i:i + per_program] for i in range(0, len(built), per_program)]
    cases = [dict({"id": f"m_{k}", "files": {"/v/main.lay": program_of(chunk)}, "main": "/v/main.lay", "stack_mb": 64}, **(extra or {})) for k, chunk in enumerate(chunks)]
    res = vlib.run_batch(binary, cases, per_case_timeout=120)
    singles = []
    for k, chunk in enumerate(chunks):
        r = res[f"m_{k}"]
        seen, ended = parse(r, chunk)
        if not ended:
            done = max(seen) + 1 if seen else 0
            if done < len(chunk):
                crashes.append((chunk[done], r))
                results[id(chunk[done])] = "crash"
                singles += chunk[done + 1:]
            else:
                crashes.append((chunk[-1], r))
    cases = [dict({"id": f"s_{k}", "files": {"/v/main.lay": program_of([c])}, "main": "/v/main.lay", "stack_mb": 64}, **(extra or {})) for k, c in enumerate(singles)]
    res = vlib.run_batch(binary, cases, per_case_timeout=60) if cases else {}
    for k, c in enumerate(singles):
        r = res[f"s_{k}"]
        seen, ended = parse(r, [c])
        if not ended:
            crashes.append((c, r))
            results[id(c)] = "crash"
    return results, crashes


def family_programs(rnd, n):
    """(id, source, expect) where expect = dict(stdout=[...exact lines...], status=..., code=...) or contract only"""
    out = []
    # ---- recursion through cycles of call kinds: f0 -> f1 -> ... -> f0, each link made by a different mechanism
    LINK = {
        "fn": lambda nxt: f"return {nxt}(n + 1);",
        "closure": lambda nxt: f"let c = |k| {nxt}(k); return c(n + 1);",
        "capture": lambda nxt: f"let d = 1; let c = |k| {nxt}(k + d); return c(n);",
        "method": lambda nxt: f"return Rec().m({nxt}, n + 1);",
        "init": lambda nxt: f"return Rec2({nxt}, n + 1);",
        "bound": lambda nxt: f"let b = Rec().m; return b({nxt}, n + 1);",
        "call": lambda nxt: f"return {nxt}.call(n + 1);",
        "map": lambda nxt: f"return [n + 1].iter().map({nxt}).list();",
        "maplazy": lambda nxt: f"let it = [n + 1].iter().map({nxt}); it.next(); return it.current();",
        "filter": lambda nxt: f"return [n + 1].iter().filter({nxt}).list();",
        "each": lambda nxt: f"[n + 1].iter().each({nxt}); return n;",
        "reduce": lambda nxt: f"return [n + 1].iter().reduce(0, |a, b| {nxt}(b));",
        "all": lambda nxt: f"return [n + 1].iter().all({nxt});",
        "any": lambda nxt: f"return [n + 1].iter().any({nxt});",
        "into": lambda nxt: f"return [n + 1].iter().into(|it| {nxt}(n + 1));",
        "sort": lambda nxt: f"return [2, 1].sort(|a, b| {nxt}(n + 1));",
        "for": lambda nxt: f"for x in [n + 1].iter().map({nxt}) {{ }} return n;",
        "str": lambda nxt: f'return "${{{nxt}(n + 1)}}";',
        "static": lambda nxt: f"return Rec.s({nxt}, n + 1);",
        "super": lambda nxt: f"return Rec3().m({nxt}, n + 1);",
        "index": lambda nxt: f"return [{nxt}][0](n + 1);",
        "try": lambda nxt: f"try {{ return {nxt}(n + 1); }} catch e: IndexError {{ return 0; }}",
    }
    PRE = ("class Rec { m(f, n) { return f(n); } static s(f, n) { return f(n); } }\n"
           "class Rec2 { init(f, n) { self.v = f(n); } }\n"
           "class Rec3 : Rec { m(f, n) { return super.m(f, n); } }\n")
    kinds = sorted(LINK)
    combos = [(k,) for k in kinds] + [tuple(rnd.choice(kinds) for _ in range(rnd.randint(2, 3))) for _ in range(n)]
    for ci, combo in enumerate(combos):
        fns = []
        for i, kind in enumerate(combo):
            nxt = f"f{(i + 1) % len(combo)}"
            fns.append(f"fn f{i}(n) {{ {LINK[kind](nxt)} }}")
        # forward references between module-level functions resolve at call time
        where = rnd.choice(["main", "fiber", "callback"]) if ci >= len(kinds) else "main"
        if where == "main":
            tail = 'try { f0(0); print("no error"); } catch e: RuntimeError { print("caught"); }\nprint("after");'
            exp = ["caught", "after"]
        elif where == "fiber":
            tail = ('let ch = chan(1);\nfn w() { try { f0(0); ch <- "no error"; } catch e: RuntimeError { ch <- "caught"; } }\n'
                    'launch w();\nprint(<- ch);\nprint("after");')
            exp = ["caught", "after"]
        else:
            tail = ('let r = [1].iter().map(|x| { try { f0(0); return "no error"; } catch e: RuntimeError { return "caught"; } }).list();\n'
                    'print(r[0]);\nprint("after");')
            exp = ["caught", "after"]
        out.append((f"rec:{'+'.join(combo)}:{where}", PRE + "\n".join(fns) + "\n" + tail, {"stdout": exp, "status": "ok"}))
        if ci < len(kinds):
            out.append((f"recun:{'+'.join(combo)}", PRE + "\n".join(fns) + '\nprint("start");\nf0(0);\nprint("not here");',
                        {"stdout": ["start"], "status": "runtime_error", "stderr_has": "RuntimeError"}))
    # ---- calling what is not callable, raising what is not an error, bad superclasses
    NONCALL = ["nil", "true", "3", '"s"', "[1]", "{}", "(1, 2)", "Obj0()", "[1].iter()", "chan(1)", 'Error("x")']
    for i, e in enumerate(NONCALL):
        out.append((f"noncall:{i}", HEADER + f'try {{ let x = {e}; x(1); print("no error"); }} catch e: RuntimeError {{ print("caught"); }}\nprint("after");',
                    {"stdout": ["caught", "after"], "status": "ok"}))
        out.append((f"noncallm:{i}", HEADER + f'try {{ let x = [{e}]; x[0](); print("no error"); }} catch e: RuntimeError {{ print("caught"); }}\nprint("after");',
                    {"stdout": ["caught", "after"], "status": "ok"}))
        out.append((f"launchnon:{i}", HEADER + f'try {{ let x = {e}; launch x(); print("no error"); }} catch e: RuntimeError {{ print("caught"); }}\nprint("after");',
                    {"stdout": ["caught", "after"], "status": "ok"}))
        out.append((f"cbnon:{i}", HEADER + f'try {{ [1].iter().map({e}).list(); print("no error"); }} catch e: RuntimeError {{ print("caught"); }}\nprint("after");',
                    {"stdout": ["caught", "after"], "status": "ok"}))
    RAISE = ["nil", "5", '"s"', "Error", "[1]", "Obj0()", "Obj0", "plainfn"]
    for i, e in enumerate(RAISE):
        out.append((f"raise:{i}", HEADER + f'try {{ raise {e}; }} catch e: RuntimeError {{ print("caught"); }}\nprint("after");',
                    {"stdout": ["caught", "after"], "status": "ok"}))
        out.append((f"raiseun:{i}", HEADER + f'print("start");\nraise {e};', {"stdout": ["start"], "status": "runtime_error", "stderr_has": "RuntimeError"}))
    SUPERS = ["nil", "5", '"s"', "[1]", "Obj0()", "plainfn", "List", "String", "Number", "Map", "Iter", "Tuple", "Bool", "Nil", "Class", "Fun",
              "Closure", "Method", "Native", "Channel"]
    for i, e in enumerate(SUPERS):
        out.append((f"super:{i}", HEADER + f'try {{ let S = {e}; class A : S {{ m() {{ return self.len(); }} }} let a = A(); print("made"); a.len(); '
                    f'a.m(); }} catch e: RuntimeError {{ print("caught"); }} catch e: PropertyError {{ print("caught"); }}\nprint("after");', {"contract": True, "last": "after"}))
    # ---- error classes with odd shapes, raised and left uncaught / caught / wrapped
    ERRCLS = ["class E : Error { init() { } }", "class E : Error { init() { self.message = 5; } }",
              "class E : Error { init() { self.message = nil; self.inner = 3; self.backTrace = 7; } }",
              'class E : Error { init(m) { super.init(m); self.extra = [1]; } str() { raise Error("in str"); } }',
              'class E : Error { init() { super.init("x", 5); } }', 'class E : Error { init() { super.init("x", Error("inner")); } }',
              'class E : Error { init() { raise ValueError("from init"); } }', 'class E : ValueError { init() { super.init("deep"); } message() { return 1; } }']
    for i, cls in enumerate(ERRCLS):
        mk = "E(\"m\")" if "init(m)" in cls else "E()"
        out.append((f"errun:{i}", f'{cls}\nprint("start");\nraise {mk};', {"contract": True, "first": "start", "status_in": ["runtime_error"]}))
        out.append((f"errc:{i}", f'{cls}\ntry {{ raise {mk}; }} catch e {{ print("caught"); print(e.message); print(e.backTrace); print(e.inner); }}\nprint("after");',
                    {"contract": True, "last": "after", "status_in": ["ok"]}))
        out.append((f"errw:{i}", f'{cls}\ntry {{ try {{ raise {mk}; }} catch e {{ raise Error("outer", e); }} }} catch g {{ print("caught2"); }}\nprint("after");',
                    {"stdout": ["caught2", "after"], "status": "ok"}))
        out.append((f"errcb:{i}", f'{cls}\ntry {{ [1].iter().map(|x| {{ raise {mk}; }}).list(); }} catch e {{ print("caught"); }}\nprint("after");',
                    {"stdout": ["caught", "after"], "status": "ok"}))
    # ---- errors while another one is being handled
    NEST = ['try { raise Error("a"); } catch e { try { raise Error("b"); } catch f { print("inner", f.message); } print("outer", e.message); }\nprint("after");',
            'try { try { raise Error("a"); } catch e { nil.x; } } catch g { print("second"); }\nprint("after");',
            'try { try { raise Error("a"); } catch e { [1][5]; } } catch g: IndexError { print("second", g.cls().name()); }\nprint("after");',
            'fn h() { try { raise Error("a"); } catch e { return h2(); } }\nfn h2() { try { raise Error("b"); } catch e { return 2; } }\nprint(h());\nprint("after");',
            'try { try { raise Error("a"); } catch e: IndexError { print("wrong"); } } catch g { try { raise g; } catch h { print("again", h.message); } }\nprint("after");',
            'fn deep(n) { if n == 0 { raise Error("bottom"); } try { return deep(n - 1); } catch e: IndexError { return 0; } }\ntry { deep(100); } catch e { print("top", e.message); }\nprint("after");',
            'fn deep(n) { if n == 0 { raise Error("bottom"); } try { return deep(n - 1); } catch e { raise Error("l", e); } }\ntry { deep(100); } catch e { print("top", e.message); }\nprint("after");']
    NEXP = [["inner b", "outer a", "after"], ["second", "after"], ["second IndexError", "after"], ["2", "after"], ["again a", "after"],
            ["top bottom", "after"], ["top l", "after"]]
    for i, (src, exp) in enumerate(zip(NEST, NEXP)):
        out.append((f"nest:{i}", src, {"stdout": exp, "status": "ok"}))
    # ---- exit at every depth
    EXITS = ['exit(3);', 'fn f() { exit(3); }\nf();', '[1].iter().each(|x| exit(3));', '[3].iter().each(exit);\nprint("x");', '[3].iter().map(exit).list();',
             'try { raise Error("a"); } catch e { exit(3); }', 'try { exit(3); } catch e { print("no"); }',
             'fn w() { exit(3); }\nlet ch = chan();\nlaunch w();\n<- ch;', 'class A { init() { exit(3); } }\nA();', '[2, 1].sort(|a, b| { exit(3); });',
             '[1].iter().reduce(0, |a, b| { exit(3); });', 'fn f(n) { if n == 0 { exit(3); } return [n].iter().map(|x| f(x - 1)).list(); }\nf(20);',
             'print("${exit(3)}");', 'exit(3.7);', 'exit(0);\nprint("no");']
    for i, src in enumerate(EXITS):
        code = 0 if "exit(0)" in src else 3
        out.append((f"exit:{i}", 'print("start");\n' + src + '\nprint("not here");', {"stdout": ["start"], "code": code}))
    # ---- module names used before their definition has run (they are declared for the whole module)
    UB = [('fn f() { return x; }\ntry { print(f()); } catch e: RuntimeError { print("caught"); }\nlet x = 1;\nprint(f());', ["caught", "1", "after"]),
          ('fn f() { return K(); }\ntry { f(); print("made"); } catch e: RuntimeError { print("caught"); }\nclass K { }\nf();', ["caught", "after"]),
          ('fn f() { return g(); }\ntry { print(f()); } catch e: RuntimeError { print("caught"); }\nfn g() { return 2; }\nprint(f());', None),
          ('fn s() { x = 5; }\ntry { s(); print("set"); } catch e: RuntimeError { print("caught"); }\nlet x = 1;', None),
          ('class A { m() { return later; } }\ntry { print(A().m()); } catch e: RuntimeError { print("caught"); }\nlet later = 3;\nprint(A().m());', ["caught", "3", "after"]),
          ('let f = || later;\ntry { print(f()); } catch e: RuntimeError { print("caught"); }\nlet later = 3;\nprint(f());', ["caught", "3", "after"]),
          ('fn f() { return [later].iter().map(|q| q).list(); }\ntry { print(f()); } catch e: RuntimeError { print("caught"); }\nlet later = 3;\nprint(f());', ["caught", "[3]", "after"]),
          ('fn w(ch) { ch <- later; }\nlet ch = chan(1);\nlaunch w(ch);\nlet later = 4;\nprint(<- ch);', ["4", "after"])]
    for i, (src, exp) in enumerate(UB):
        out.append((f"usebefore:{i}", src + '\nprint("after");', {"stdout": exp, "status": "ok"} if exp else {"contract": True, "last": "after", "status_in": ["ok"]}))
    # ---- launch of every kind of callable: the new fiber must see the receiver / the new instance
    LPRE = ('class M { init() { self.v = 7; } run(ch) { ch <- self.v; } static make(ch) { ch <- 8; } }\n'
            'class I { init(ch) { self.v = 9; ch <- self.v; } }\nfn plain(ch) { ch <- 1; }\n'
            'fn mk() { let c = 2; return |ch| { ch <- c; }; }\nlet ch = chan(1);\n')
    LAUNCH = [("launch plain(ch);", "1"), ("let c = mk(); launch c(ch);", "2"), ("let m = M(); launch m.run(ch);", "7"), ("launch M.make(ch);", "8"),
              ("launch I(ch);", "9"), ("let b = M().run; launch b(ch);", "7"), ("let l = [ch]; launch plain(l[0]);", "1"),
              ("fn deep(n, ch) { if n == 0 { launch M().run(ch); } else { deep(n - 1, ch); } }\ndeep(5, ch);", "7"),
              ("[ch].iter().each(|c| { launch M().run(c); });", "7"), ("launch plain.call(ch);", "1")]
    for i, (src, exp) in enumerate(LAUNCH):
        out.append((f"launch:{i}", LPRE + src + "\nprint(<- ch);\nprint(\"after\");", {"stdout": [exp, "after"], "status": "ok"}))
    # ---- errors and callbacks built while the stack is at every fill level (run again under a collection at every
    # allocation): the runtime makes room on the stack for the callee and its arguments, which can start a collection
    # while they are reachable from nowhere else
    # the raising call is the deepest point of its function (nothing else in it needs more slots), so the room for
    # the error's constructor call is exactly what is missing when the frame sits at the end of the stack
    RAISERS = ["assertEq(k, -1)", "assertNe(k, k)", '"a".has(k)', "[1].remove(k + 5)", "[1].insert(k + 5, 0)", "k.times().take(0.5)",
               "[3, 1, 2].sort(|a, b| nil)", "[1, 2].iter().map(|x| x.zz).list()", "[k].iter().each(|x| x.zz)", "k + nil"]
    for k in range(0, 40, 1):
        what = RAISERS[k % len(RAISERS)]
        locs = "".join(f"  let v{j} = {j};\n" for j in range(k % 13))
        src = (HEADER + f"fn f(k) {{\n{locs}  try {{ {what}; }} catch e {{ print(e.cls().name().len() > 3); }}\n  return k;\n}}\n"
               "fn r(n, k) { if n == 0 { return f(k); } return r(n - 1, k); }\n"
               f"let d = 0;\nwhile d < 120 {{ r(d, {k}); d = d + 1; }}\nprint(\"after\");")
        out.append((f"errfill:{k}", src, {"stdout": ["true"] * 120 + ["after"], "status": "ok"}))
    # ---- errors and exits on fibers other than the main one
    FIBERR = [('fn w() { raise Error("in fiber"); }\nlaunch w();\nlet ch = chan();\nprint(<- ch);', {"status_in": ["runtime_error"], "stderr_has": "Error: in fiber"}),
              ('fn w(ch) { nil.x; ch <- 1; }\nlet ch = chan(1);\nlaunch w(ch);\nprint(<- ch);', {"status_in": ["runtime_error"], "stderr_has": "in w()"}),
              ('fn w(ch) { try { nil.x; } catch e { ch <- "c"; } }\nlet ch = chan(1);\nlaunch w(ch);\nprint(<- ch);\nprint("after");', {"stdout": ["c", "after"], "status": "ok"}),
              ('fn w() { exit(5); }\nlaunch w();\nlet ch = chan();\nprint(<- ch);', {"code": 5}),
              ('fn g() { [1][7]; }\nfn w() { launch g(); let c = chan(); <- c; }\nlaunch w();\nlet ch = chan();\n<- ch;', {"status_in": ["runtime_error"], "stderr_has": "in g()"}),
              ('fn w() { print("w"); }\nlaunch w();\nlaunch w();\nraise Error("main");', {"status_in": ["runtime_error"], "stderr_has": "Error: main"}),
              ('fn w(ch) { [1].iter().each(|x| x.zz); ch <- 1; }\nlet ch = chan(1);\nlaunch w(ch);\nprint(<- ch);', {"status_in": ["runtime_error"], "stderr_has": "each()"}),
              ('fn w(ch) { nil.x; }\nlet ch = chan();\nlaunch w(ch);\ntry { print(<- ch); } catch e { print("caught in main"); }\nprint("after");', {"status_in": ["runtime_error", "ok"]}),
              ('fn w(ch, i) { ch <- i; }\nlet ch = chan(300);\nfor i in 300.times() { launch w(ch, i); }\nlet s = 0;\nfor i in 300.times() { s = s + <- ch; }\nprint(s);', {"stdout": ["44850"], "status": "ok"}),
              ('fn r(n) { return r(n + 1); }\nfn w(ch) { try { r(0); } catch e { ch <- "overflow"; } }\nlet ch = chan(1);\nlaunch w(ch);\nprint(<- ch);', {"stdout": ["overflow"], "status": "ok"}),
              ('fn w(ch) { ch <- [1, [2]]; }\nlet ch = chan();\nlaunch w(ch);\nlet v = <- ch;\nprint(v[1][0]);', {"stdout": ["2"], "status": "ok"})]
    for i, (src, exp) in enumerate(FIBERR):
        out.append((f"fibererr:{i}", src, dict({"contract": True}, **exp)))
    # ---- the operations that are syntax, not natives of the table, over every kind (pair) of operand
    kinds = sorted(POOL)
    val = lambda k, j=0: POOL[k][j % len(POOL[k])]
    unary = ["-X", "!X", "<- X", "X.zz", "X.zz = 1", "X.zz()", "X.zz(1, 2)", "X()", "X(1)", "for q in X { break; }", "X[0]", "X[0] = 1", "X[0] += 1", "X.zz += 1",
             "launch X()", "raise X", '"${X}"', "X ? 1 : 2", "X && X", "X || X", "class Q : X { }", "chan(X)", "X <- 1", "let q = X; q = nil"]
    stmts = []
    for k in kinds:
        for j, u in enumerate(unary):
            if k == "chan" and u in ("<- X", "X <- 1"):
                continue            # these wait for another fiber: a reported deadlock, which is a legitimate end but ends the script
            body = u.replace("X", val(k, j))
            if body.startswith("class Q : "):
                body = "let S = " + body[len("class Q : "):-len(" { }")] + "; class Q : S { }"
            stmts.append(body if body.startswith("for ") or body.endswith("}") else body + ";")
    binary = ["+", "-", "*", "/", "<", "<=", ">", ">=", "==", "!="]
    for a in kinds:
        for b in kinds:
            for j, o in enumerate(binary):
                stmts.append(f"({val(a, j)}) {o} ({val(b, j + 1)});")
            stmts.append(f"({val(a)})[{val(b)}];")
            stmts.append(f"({val(a)})[{val(b)}] = {val(b, 1)};")
    # what the front end refuses is not the runtime's business (C15): keep the statements that compile
    accepted = vlib.run_batch(vlib.build_harness(), [{"id": f"s{j}", "src": HEADER + "try { " + st + " } catch e { }", "repl": False} for j, st in enumerate(stmts)], subcmd="dump", per_case_timeout=30)
    stmts = [st for j, st in enumerate(stmts) if accepted[f"s{j}"].get("status") == "ok"]
    for c0 in range(0, len(stmts), 300):
        chunk = stmts[c0:c0 + 300]
        src = HEADER + "".join(f"try {{ {st} }} catch e {{ }}\n" for st in chunk) + 'print("after");'
        out.append((f"syntaxops:{c0}", src, {"contract": True, "last": "after", "status_in": ["ok"]}))
    # ---- chan(n) is syntax, not a native of the table: every kind of capacity
    for i, cap in enumerate(["0", "1", "-1", "0.5", "2", "255", "1e18", "1e300", "(0/0)", "(1/0)", "(-1/0)", '"a"', "nil", "true", "[1]", "Obj0()", "9007199254740993"]):
        out.append((f"chancap:{i}", HEADER + f'try {{ let c = chan({cap}); c <- 1; print(<- c); }} catch e {{ print("caught"); }}\nprint("after");',
                    {"contract": True, "last": "after", "status_in": ["ok"]}))
    # ---- launch of something that runs at once (a native, a class without initializer, a class with a native
    # initializer): repeated inside a function whose stack is then used to its reserved depth
    for i, what in enumerate(['print("hi")', "NoInit()", 'Error("x")', "[1].push(2)", '"a".len()', "clock()", "[3, 1].iter()", "Obj0()"]):
        for reps in (1, 3, 40):
            src = (HEADER + "class NoInit { }\nfn deep(a, b, c) { return [a, b, c].len(); }\nfn g() {\n" + f"  launch {what};\n" * reps +
                   "  return deep([1, 2, 3], [4, 5], (6, [7, [8, [9]]]));\n}\nlet r = g();\nprint(\"result\", r);\nprint(\"after\");")
            exp_out = (["hi"] * reps if what.startswith("print") else []) + ["result 3", "after"]
            out.append((f"launchnow:{i}:{reps}", src, {"stdout": exp_out, "status": "ok"}))
    # ---- str() that returns something else than a string, raises, or recurses, at every place that calls it
    SPRE = ('class A { str() { return 5; } }\nclass B { str() { return nil; } }\nclass C { str() { return [1]; } }\n'
            'class D { str() { raise Error("in str"); } }\nclass S { init() { self.me = self; } str() { return "${self.me}"; } }\n')
    for i, mk in enumerate(["A()", "B()", "C()", "D()", "S()"]):
        for j, use in enumerate(["print(X);", 'print("${X}");', "print([X]);", "print((X, 1));", "print({1: X});", "print({X: 1});", "print([X].str());",
                                 "print([[X]]);", 'print("a" + X.str());', "assertEq(X, 1);", 'raise Error("${X}");', "print(X.str().len());"]):
            out.append((f"str:{i}:{j}", SPRE + "try { " + use.replace("X", mk) + ' } catch e { print("caught"); }\nprint("after");', {"contract": True, "last": "after", "status_in": ["ok"]}))
    # ---- values that contain themselves
    for i, src in enumerate(['let l = [1]; l.push(l); print(l);', 'let m = {}; m[1] = m; print(m);', 'let l = [1]; let t = (l, 2); l.push(t); print(t);',
                             'let l = [1]; l.push(l); print(l == l, l.has(l), l.index(l));', 'let l = [1]; l.push(l); let m = {}; m[l] = 1; print(m.has(l));',
                             'let l = [1]; l.push(l); print(l.str().len());', 'let l = [1]; l.push(l); print("${l}");']):
        out.append((f"selfref:{i}", "try { " + src + ' } catch e { print("caught"); }\nprint("after");', {"contract": True, "last": "after", "status_in": ["ok"]}))
    return out


# ---- data structures deeper than the host stack: known finding KF-C16-deep-structure
DEEP = [
    ('linked-list-collected', 'class Node { init(next) { self.next = next; } }\nlet head = nil;\nlet i = 0;\nwhile i < 300000 { head = Node(head); i = i + 1; }\n'
                              'print("built");\nlet junk = [];\ni = 0;\nwhile i < 300000 { junk = [i, "x${i}"]; i = i + 1; }\nprint("after");'),
    ('nested-list-collected', 'let l = [];\nlet i = 0;\nwhile i < 300000 { l = [l]; i = i + 1; }\nprint("built");\nlet junk = [];\ni = 0;\n'
                              'while i < 300000 { junk = [i, "x${i}"]; i = i + 1; }\nprint("after");'),
]


def mutant_programs(binary, rnd, n):
    """texts the C15 mutation engine makes from the fixture and generator corpus that the front end ACCEPTS: programs
    nobody wrote on purpose (launch of a native, a catch class that is a string, statements moved into other
    functions ...).  Fiber and channel constructs are left to C07 / C08."""
    import c_front
    texts = [(tid, t) for tid, t in c_front.corpus(rnd, 200) if not re.search(r"\bchan\b|<-|\bexit\b|stdin|while true", t)]
    cand = []
    for i in range(n):
        tid, t = rnd.choice(texts)
        cand.append((f"mut:{i}:{tid}", c_front.mutate_lines(rnd, t)))
    cand = [(cid, t) for cid, t in cand if len(t) < 6000 and not re.search(r"\bchan\b|<-|\bexit\b|while true", t)]
    res = vlib.run_batch(binary, [{"id": f"d{j}", "src": t, "repl": False} for j, (cid, t) in enumerate(cand)], subcmd="dump", per_case_timeout=60)
    return [(cid, t) for j, (cid, t) in enumerate(cand) if res[f"d{j}"].get("status") == "ok"]


# ---- tiny module-level programs whose only deep point is a call that fails: the fiber's stack is exactly as large
# as the script needs, so the runtime has to grow it to build the error; run plainly and under a collection at every
# allocation, the printed message and everything else must be identical (differential: no wording is assumed)
TINY_RAISERS = ["assertEq(1, 2)", "assertNe(3, 3)", 'assertEq("a", [1])', "assert(false)", '"a".has(1)', "[1].remove(7)", "[1].insert(9, 0)", "[1][5]",
                '{"a": 1}["b"]', "(1, 2)[7]", '"abc"[9]', "[1].slice(nil)", "3.times().take(0.5)", "(0 - 1).times()", "1.until(5, 0)", "clock(1)",
                "nil + 1", "nil.x", "nil.m()", "3()", "[3, 1, 2].sort(|a, b| nil)", "[1, 2].iter().map(|x| x.zz).list()", "[1].iter().each(|x| x.zz)",
                "[1].iter().reduce(0, |a, b| a.q)", 'raise Error("plain")', 'raise ValueError("v" + 1.str())', 'Number.parse("zz")', "List.collect(3)",
                "[1].iter().zip(4)", 'Error()', 'Error(1)', '[1].iter().into(|it| it.nope)']


TINY_CALLBACKS = ["T()", "[T()]", "(T(), 1)", "{1: T()}", '"${T()}"', "[T(), T()].str()", "[3, 1, 2].sort(|a, b| a - b)", "[1, 2].iter().map(|x| [x, [x]]).list()",
                  "[1, 2].iter().filter(|x| [x].len() > 0).list()", '[1, 2].iter().reduce("", |a, b| a + b.str())', "[1, 2].iter().zip([3, 4].iter()).list()",
                  '["a", "b"].iter().map(|x| x + "c").into(List.collect)', "2.times().map(|x| T().str()).list()", '"a,b".split(",").map(|x| x + x).list()',
                  "[[1], [2]].iter().map(|x| x.len()).list()", "Error(\"m\" + 1.str()).message", "[1, 2, 3].slice(1).len()", '"abc".slice(1) + "d"',
                  "[1].iter().chain([2].iter()).list()", "[1, 2].iter().take(1).list()", "T().str().len()", "assertEq(T().str(), \"t1\")"]


def tiny_error_programs():
    out = []
    # calls that call back into the interpreter or allocate several objects, as the deepest point of a script
    for i, what in enumerate(TINY_CALLBACKS):
        pre = 'class T { str() { return "t" + 1.str(); } }\n'
        out.append((f"tinycb:{i}", pre + f"print({what});\n"))
        out.append((f"tinycbfiber:{i}", pre + f"fn w(ch) {{ ch <- {what}; }}\nlet ch = chan(1);\nlaunch w(ch);\nprint(<- ch);\n"))
        out.append((f"tinycbmethod:{i}", pre + f"class U {{ m() {{ return {what}; }} }}\nprint(U().m());\n"))
    for i, what in enumerate(TINY_RAISERS):
        for pre in range(0, 4):
            lets = "".join(f"let p{j} = {j};\n" for j in range(pre))
            # nothing else in the script needs more slots than the failing call: print(e.message) takes two
            out.append((f"tiny:{i}:{pre}", lets + f"try {{ {what}; }} catch e {{ print(e.message); }}\n" + what + ";\n"))
        # the same on a launched fiber, whose stack is cut to what its function needs
        out.append((f"tinyfiber:{i}", f"fn w(ch) {{ try {{ {what}; }} catch e {{ ch <- e.message; }} }}\nlet ch = chan(1);\nlaunch w(ch);\nprint(<- ch);\n"))
        out.append((f"tinymethod:{i}", f"class T {{ m() {{ try {{ {what}; }} catch e {{ return e.message; }} }} }}\nprint(T().m());\n"))
        # ... and as the body of an imported module (its own fiber, its own script)
        out.append((f"tinymodule:{i}", {"/v/main.lay": 'import self.m;\nprint("main", m.r);\n',
                                        "/v/m.lay": f"export let r = nil;\ntry {{ {what}; }} catch e {{ r = e.message; }}\n"}))
    return out


def exit_cases(dump, calls, rnd):
    out = []
    for c in calls:
        n = dump[c["ni"] - 1]
        if (n.get("owner") or "", n["name"]) != ("", "exit"):
            continue
        for _ in range(3):
            vals = [rnd.choice(POOL[k]) for k in c["args"]]
            out.append({"src": f"exit({', '.join(vals)})", "verdict": c["verdict"], "args": c["args"], "vals": vals})
    return out


# ---- blocking channel operations below a native callback: known finding KF-C16-block-in-callback
BLOCKING = [
    ('send-unbuffered', 'let ch = chan();\n[1].iter().each(|x| { ch <- x; });\nprint("after");'),
    ('recv-empty', 'let ch = chan(1);\nprint([1].iter().map(|x| <- ch).list());\nprint("after");'),
    ('recv-from-fiber', 'let ch = chan();\nfn p() { ch <- 5; }\nlaunch p();\nprint([1].iter().map(|x| <- ch).list());\nprint("after");'),
    ('recv-after-call', 'let ch = chan();\nfn helper() { return 5; }\nfn p() { let r = helper(); print("p got", r); ch <- r; print("p done"); }\nlaunch p();\n'
                        'print([1, 2].iter().map(|x| <- ch).list());\nprint("after");'),
    ('send-full', 'let ch = chan(1);\nch <- 0;\nfn c() { print(<- ch); print(<- ch); }\nlaunch c();\n[1].iter().each(|x| { ch <- x; });\nprint("after");'),
]


def run(pid, tier, replay=None):
    v = vlib.Verdict(pid, tier)
    rnd = random.Random(vlib.seed() * 131 + 16)
    builds = [("dev", vlib.build_harness())]
    if tier == "thorough":
        builds.append(("release", vlib.build_harness("release")))
    gsbin = vlib.build_harness(gc_stress=True)      # laythe_core's stress feature: also collects at every non-growing reserve
    dump, table = load_table(builds[0][1])
    os.makedirs(vlib.WORK, exist_ok=True)
    tpath = os.path.join(vlib.WORK, f"natives_table_{os.getpid()}.json")
    json.dump(table, open(tpath, "w"))
    cfg = "MC_Natives_q" if tier == "quick" else "MC_Natives_t"
    r = vlib.tlc("Natives", cfg, env={"NATIVES": tpath}, workers=4 if tier == "quick" else 8, timeout=3000, heap="8g")
    os.remove(tpath)
    if r["timeout"] or "No error has been found" not in r["out"]:
        bad = [l for l in r["out"].splitlines() if "Invariant" in l and "violated" in l]
        if bad:
            # the registered table itself breaks the gate's contract
            v.violation("Natives.tla: " + bad[0], {"tlc": r["out"][-3000:]})
            return v.finish()
        raise vlib.ToolError("TLC on Natives.tla did not complete:\n" + r["out"][-2000:])
    calls = vlib.tlc_json(r["out"], "CALL")
    v.cov["states"] = r["distinct"]
    v.cov["transitions"] = r["states"]
    known = {f["id"]: f for f in vlib.known_findings().get("findings", [])}
    variants = 1 if tier == "quick" else 3
    judged = 0
    mism = collections.Counter()
    if replay:
        rp = json.load(open(replay))["replay"]
        if "call" in rp:
            built = [rp["call"]]
            fams = []
        else:
            built = []
            fams = [(rp["id"], rp["source"], rp["expect"])]
        excases = []
    else:
        built = build_calls(dump, calls, rnd, variants)
        fams = family_programs(rnd, 60 if tier == "quick" else 1500)
        excases = exit_cases(dump, calls, rnd)
    pats, trusted = calibrate(builds[0][1])
    v.notes["gate_messages_learnt"] = {"trusted": trusted, "patterns": {k: len(p) for k, p in pats.items()}}
    # the calls whose body runs are also made under a collection at every allocation: the temporaries of a native
    # (and the error the interpreter builds for it) must survive a collection at any point
    matrix_runs = [(label, binary, built, None) for label, binary in builds]
    if not replay:
        body_calls = [c for c in built if c["verdict"] == "body"]
        sample = body_calls if tier == "thorough" else random.Random(vlib.seed()).sample(body_calls, min(25000, len(body_calls)))
        matrix_runs.append((builds[0][0] + "+gc", builds[0][1], sample, {"gc": {"every": 1, "force_full": True}}))
        # ... and on the gc_stress build (a collection also at every stack check)
        matrix_runs.append(("gc_stress", gsbin, sample if tier == "thorough" else sample[:15000], None))
        if tier == "quick":
            # the release profile (no debug assertions, optimised): a sample of the matrix and all the families
            rel = vlib.build_harness("release")
            matrix_runs.append(("release", rel, random.Random(vlib.seed() + 1).sample(built, min(40000, len(built))), None))
        # the second value representation: an unchecked unwrap is a panic in the enum build and a wild pointer here
        nb = vlib.build_harness(nan_boxing=True)
        matrix_runs.append(("nan_boxing", nb, built if tier == "thorough" else random.Random(vlib.seed() + 2).sample(built, min(40000, len(built))), None))
    for label, binary, built_here, extra in matrix_runs:
        results, crashes = run_matrix(v, binary, built_here, label, extra=extra)
        for c in built_here:
            line = results.get(id(c))
            if line is None:
                raise vlib.ToolError(f"no result for call {c['src']}")
            if line == "crash":
                continue
            judged += 1
            got = observed_verdict(c["name"], line, pats)
            if verdict_mismatch(c["verdict"], got, trusted):
                mism[(c["owner"], c["name"])] += 1
                if mism[(c["owner"], c["name"])] <= 2:
                    v.violation(f"[{label}] {c['src']}: Natives.tla says the gate's verdict is '{c['verdict']}' but the VM answered '{line[:160]}' ({got})",
                                {"call": c, "build": label, "observed": line})
        seen_crash = collections.Counter()
        for c, r_ in crashes:
            key = (c["owner"], c["name"], tuple(c["args"]))
            seen_crash[key] += 1
            if seen_crash[key] > 1:
                continue
            v.violation(f"[{label}] {c['src']} ends the process: status {r_.get('status')} panic={str(r_.get('panic'))[:200]} stderr={r_.get('stderr', '')[-200:]!r}",
                        {"call": c, "build": label, "observed": {"status": r_.get("status"), "panic": r_.get("panic"), "stderr": r_.get("stderr", "")[-600:]}})
        if extra or label == "gc_stress":
            continue            # the collection schedule runs cover the call matrix only
        # exit(): every accepted call ends the process with a code, every refused one is an error
        cases = [{"id": f"x{i}", "files": {"/v/main.lay": HEADER + f'try {{ {e["src"]}; }} catch e {{ print("#~ err", e.message); }}\nprint("#~ end");'}, "main": "/v/main.lay"}
                 for i, e in enumerate(excases)]
        res = vlib.run_batch(binary, cases, per_case_timeout=30) if cases else {}
        for i, e in enumerate(excases):
            r_ = res[f"x{i}"]
            judged += 1
            out = r_.get("stdout", "")
            if r_.get("status") in ("panic", "crash", "timeout"):
                v.violation(f"[{label}] {e['src']} ends the process: {r_.get('status')} {str(r_.get('panic'))[:200]}", {"call": e, "build": label})
            elif e["verdict"] == "body" and "#~ end" in out and "#~ err" not in out:
                v.violation(f"[{label}] {e['src']}: accepted by the gate but the program went on", {"call": e, "build": label, "stdout": out[:300]})
            elif e["verdict"] != "body" and "#~ err" not in out:
                v.violation(f"[{label}] {e['src']}: the gate's verdict is '{e['verdict']}' but no error was raised", {"call": e, "build": label, "stdout": out[:300]})
        # program families
        cases = [{"id": f"f{i}", "files": src if isinstance(src, dict) else {"/v/main.lay": src}, "main": "/v/main.lay", "stack_mb": 64, "classes": ["exc"], "max_events": 400000}
                 for i, (fid, src, exp) in enumerate(fams)]
        res = vlib.run_batch(binary, cases, per_case_timeout=60) if cases else {}
        # the frame / handler / nested loop events of every family program against the contract Unwind.tla
        runs = [(f"f{i}", res[f"f{i}"].get("events", [])) for i in range(len(fams))
                if res[f"f{i}"].get("dropped", 0) == 0 and res[f"f{i}"].get("status") in ("ok", "runtime_error")]
        unwindlib.validate(v, pid, runs, lambda rid, rej: {"id": fams[int(rid[1:])][0], "source": fams[int(rid[1:])][1], "expect": fams[int(rid[1:])][2],
                                                           "build": label, "unwind_event": rej})
        for i, (fid, src, exp) in enumerate(fams):
            r_ = res[f"f{i}"]
            judged += 1
            what = judge_family(exp, r_)
            if what:
                v.violation(f"[{label}] {fid}: {what}", {"id": fid, "source": src, "expect": exp, "build": label,
                            "observed": {"status": r_.get("status"), "code": r_.get("code"), "stdout": r_.get("stdout", "")[:600], "stderr": r_.get("stderr", "")[-600:],
                                         "panic": r_.get("panic")}})
        if not replay and label == builds[0][0]:
            # the same families under a collection at every allocation: same outcome (frames, handlers, errors in flight,
            # fibers being split off and natives calling back are all live across a collection)
            for gname, gbin, gopts in (("+gc", binary, {"gc": {"every": 1, "force_full": True}}), ("+stress", gsbin, {})):
                cases = [dict({"id": f"g{i}", "files": src if isinstance(src, dict) else {"/v/main.lay": src}, "main": "/v/main.lay", "stack_mb": 64}, **gopts)
                         for i, (fid, src, exp) in enumerate(fams)]
                resg = vlib.run_batch(gbin, cases, per_case_timeout=120)
                for i, (fid, src, exp) in enumerate(fams):
                    r_ = resg[f"g{i}"]
                    judged += 1
                    what = judge_family(exp, r_)
                    if what:
                        v.violation(f"[{label}{gname}] {fid}: {what}", {"id": fid, "source": src, "expect": exp, "build": label + gname,
                                    "observed": {"status": r_.get("status"), "code": r_.get("code"), "stdout": r_.get("stdout", "")[:600],
                                                 "stderr": r_.get("stderr", "")[-600:], "panic": r_.get("panic")}})
        if not replay:
            tiny = tiny_error_programs()
            files_of = lambda src: src if isinstance(src, dict) else {"/v/main.lay": src}
            plain = vlib.run_batch(binary, [{"id": f"t{j}", "files": files_of(src), "main": "/v/main.lay"} for j, (tid, src) in enumerate(tiny)], per_case_timeout=30)
            dense = vlib.run_batch(binary, [{"id": f"t{j}", "files": files_of(src), "main": "/v/main.lay", "gc": {"every": 1, "force_full": True}}
                                            for j, (tid, src) in enumerate(tiny)], per_case_timeout=30)
            stress = vlib.run_batch(gsbin, [{"id": f"t{j}", "files": files_of(src), "main": "/v/main.lay"} for j, (tid, src) in enumerate(tiny)], per_case_timeout=60) \
                if label == builds[0][0] else dict(dense)
            # every raiser also as an entry of an interactive session (each entry is a script of its own)
            sess = [f"{w};" for w in TINY_RAISERS] + ['print("still here");']
            plain["session"] = vlib.run_batch(binary, [{"id": "session", "repl": sess}], per_case_timeout=60)["session"]
            dense["session"] = vlib.run_batch(binary, [{"id": "session", "repl": sess, "gc": {"every": 1, "force_full": True}}], per_case_timeout=60)["session"]
            stress["session"] = vlib.run_batch(gsbin, [{"id": "session", "repl": sess}], per_case_timeout=60)["session"] if label == builds[0][0] else dense["session"]
            tiny = tiny + [("tinysession", "\n".join(sess))]
            plain[f"t{len(tiny) - 1}"], dense[f"t{len(tiny) - 1}"], stress[f"t{len(tiny) - 1}"] = plain["session"], dense["session"], stress["session"]
            for j, (tid, src) in enumerate(tiny):
                a = plain[f"t{j}"]
                judged += 1
                strip = lambda t: re.sub(r"0x[0-9a-f]+", "0x?", t or "")
                what = None
                for name, r_ in (("", a), ("+gc", dense[f"t{j}"]), ("+stress", stress[f"t{j}"])):
                    if r_.get("status") in ("panic", "crash", "hang", "timeout"):
                        what = f"[{label}{name}] {tid}: ends in a host failure: {r_.get('status')} {str(r_.get('panic'))[:160]} signal={r_.get('signal')}"
                for name, b_ in (("a collection at every allocation", dense[f"t{j}"]), ("the gc_stress build", stress[f"t{j}"])):
                    if what is None and (a.get("status") != b_.get("status") or strip(a.get("stdout")) != strip(b_.get("stdout")) or strip(a.get("stderr")) != strip(b_.get("stderr"))):
                        what = (f"[{label}] {tid}: {name} changes what the program reports: {strip(a.get('stdout'))[-120:]!r} / "
                                f"{strip(a.get('stderr'))[-100:]!r} becomes {strip(b_.get('stdout'))[-120:]!r} / {strip(b_.get('stderr'))[-100:]!r}")
                if what:
                    v.violation(what, {"id": tid, "source": src, "expect": {"contract": True}, "build": label})
        if not replay and label == builds[0][0]:
            # single calls as scripts of their own (the call is the deepest point of the script, so a native that calls
            # back or raises has to grow the stack), plainly and under the dense schedule: identical reports
            bodies = [c for c in built if c["verdict"] == "body"]
            pick = random.Random(vlib.seed() * 5 + 9).sample(bodies, min(4000 if tier == "quick" else 60000, len(bodies)))
            def single(c):
                return "\n".join(c["imports"]) + "\n" + HEADER + f'try {{ {c["src"]}; print("ok"); }} catch e {{ print(e.message); }}\n'
            plain = vlib.run_batch(binary, [{"id": f"o{j}", "files": {"/v/main.lay": single(c)}, "main": "/v/main.lay"} for j, c in enumerate(pick)], per_case_timeout=30)
            dense = vlib.run_batch(binary, [{"id": f"o{j}", "files": {"/v/main.lay": single(c)}, "main": "/v/main.lay", "gc": {"every": 1, "force_full": True}}
                                            for j, c in enumerate(pick)], per_case_timeout=30)
            stress = vlib.run_batch(gsbin, [{"id": f"o{j}", "files": {"/v/main.lay": single(c)}, "main": "/v/main.lay"} for j, c in enumerate(pick)], per_case_timeout=60)
            strip = lambda t: re.sub(r"0x[0-9a-f]+|\d{6,}(\.\d+)?", "?", t or "")
            shown = collections.Counter()
            for j, c in enumerate(pick):
                a = plain[f"o{j}"]
                judged += 1
                what = None
                for name, r_ in (("", a), ("+gc", dense[f"o{j}"]), ("+stress", stress[f"o{j}"])):
                    if r_.get("status") in ("panic", "crash", "hang", "timeout"):
                        what = f"[{label}{name}] {c['src']} as a script of its own: host failure: {r_.get('status')} {str(r_.get('panic'))[:160]} signal={r_.get('signal')}"
                for name, b_ in (("a collection at every allocation", dense[f"o{j}"]), ("the gc_stress build", stress[f"o{j}"])):
                    if what is None and (a.get("status") != b_.get("status") or strip(a.get("stdout")) != strip(b_.get("stdout"))):
                        what = (f"[{label}] {c['src']} as a script of its own: {name} changes the report: "
                                f"{strip(a.get('stdout'))[-140:]!r} becomes {strip(b_.get('stdout'))[-140:]!r}")
                if what:
                    shown[(c["owner"], c["name"])] += 1
                    if shown[(c["owner"], c["name"])] <= 2:
                        v.violation(what, {"call": c, "build": label, "source": single(c)})
        if not replay and label == builds[0][0]:
            # accepted mutants, run plainly and under a collection at every allocation: no host failure in either
            # (a mutant may loop: a timeout is not judged)
            muts = mutant_programs(binary, random.Random(vlib.seed() * 17 + 3), 6000 if tier == "quick" else 150000)
            v.notes["accepted_mutants_run"] = len(muts)
            for extra_name, extra_opts, mbin in (("", {}, binary), ("+gc", {"gc": {"every": 1, "force_full": True}}, binary), ("+stress", {}, gsbin)):
                cases = [dict({"id": f"u{j}", "files": {"/v/main.lay": t}, "main": "/v/main.lay"}, **extra_opts) for j, (cid, t) in enumerate(muts)]
                resm = vlib.run_batch(mbin, cases, per_case_timeout=3)
                seen_sites = collections.Counter()
                for j, (cid, t) in enumerate(muts):
                    r_ = resm[f"u{j}"]
                    judged += 1
                    if r_.get("status") in ("panic", "crash"):
                        site = str(r_.get("panic"))[:100] + str(r_.get("signal"))
                        seen_sites[site] += 1
                        if seen_sites[site] <= 2:
                            v.violation(f"[{label}{extra_name}] {cid}: ends in a host failure: {r_.get('status')} panic={str(r_.get('panic'))[:200]} signal={r_.get('signal')}",
                                        {"id": cid, "source": t, "expect": {"contract": True}, "build": label + extra_name,
                                         "observed": {"status": r_.get("status"), "panic": r_.get("panic"), "stdout": r_.get("stdout", "")[-300:], "stderr": r_.get("stderr", "")[-400:]}})
        if not replay:
            cases = [{"id": f"d{i}", "files": {"/v/main.lay": src}, "main": "/v/main.lay"} for i, (did, src) in enumerate(DEEP)]
            res = vlib.run_batch(binary, cases, per_case_timeout=120)
            for i, (did, src) in enumerate(DEEP):
                r_ = res[f"d{i}"]
                judged += 1
                if r_.get("status") != "ok" or not r_.get("stdout", "").endswith("after\n"):
                    if "KF-C16-deep-structure" in known and did in known["KF-C16-deep-structure"].get("classes", []):
                        v.known_finding("KF-C16-deep-structure", did)
                    else:
                        v.violation(f"[{label}] deep:{did}: {r_.get('status')} {r_.get('stderr', '')[-160:]!r}",
                                    {"id": "deep:" + did, "source": src, "expect": {"contract": True, "last": "after"}, "build": label})
        # known finding: blocking under a native callback
        if not replay:
            cases = [{"id": f"b{i}", "files": {"/v/main.lay": src}, "main": "/v/main.lay"} for i, (bid, src) in enumerate(BLOCKING)]
            res = vlib.run_batch(binary, cases, per_case_timeout=30)
            for i, (bid, src) in enumerate(BLOCKING):
                r_ = res[f"b{i}"]
                judged += 1
                bad = r_.get("status") in ("panic", "crash", "timeout") or (r_.get("status") == "ok" and not r_.get("stdout", "").endswith("after\n"))
                if bad:
                    if "KF-C16-block-in-callback" in known and bid in known["KF-C16-block-in-callback"].get("classes", []):
                        v.known_finding("KF-C16-block-in-callback", bid)
                    else:
                        v.violation(f"[{label}] blocking:{bid}: {r_.get('status')} {str(r_.get('panic'))[:200]}",
                                    {"id": "blocking:" + bid, "source": src, "expect": {"contract": True}, "build": label})
    v.cov["evaluations"] = judged
    v.cov["distinct_nontrivial"] = len({c["src"] for c in built}) + len(fams)
    v.cov["traces_validated_against_impl"] = sum(len(b) for _, _, b, _ in matrix_runs)
    v.cov["rule"] = ("call matrix: one evaluation = one call (native x argument kinds enumerated by TLC on Natives.tla, instantiated with concrete "
                     "values) run on the VM and judged against the specification's verdict; families: one evaluation = one program with an outcome "
                     "known by construction; non-trivial = distinct call source text / program")
    v.notes["natives"] = len(dump)
    v.notes["tlc_calls"] = len(calls)
    v.notes["calls_run"] = len(built)
    v.notes["family_programs"] = len(fams)
    v.notes["verdicts"] = dict(collections.Counter(c["verdict"] for c in built))
    v.notes["builds"] = [r[0] for r in matrix_runs] + ["gc_stress (families, tiny programs, single-call scripts, accepted mutants)"]
    v.assumptions = ["the natives table is what `lvh natives` (verif hook) reads from the VM's global module and standard library modules",
                     "the gate's verdict is observed through its error messages (<name> expected .. argument(s) / <name>'s parameter .. / todo)",
                     "index operators are only called with the operand count the syntax allows"]
    for c in built[:3] + built[-3:]:
        v.cov["samples"].append({"call": c["src"], "kinds": c["args"], "verdict": c["verdict"]})
    return v.finish()


def judge_family(exp, r):
    st = r.get("status")
    out = r.get("stdout", "").splitlines()
    if st in ("panic", "crash", "timeout"):
        return f"ends in a host failure: {st} panic={str(r.get('panic'))[:200]} stderr={r.get('stderr', '')[-200:]!r}"
    if "code" in exp:
        if r.get("code") != exp["code"]:
            return f"exit code {r.get('code')} instead of {exp['code']} (stdout {out[:3]})"
    if "stdout" in exp and out != exp["stdout"]:
        return f"printed {out[:4]} instead of {exp['stdout']} (status {st})"
    if "status" in exp and st != exp["status"]:
        return f"status {st} instead of {exp['status']}"
    if "status_in" in exp and st not in exp["status_in"]:
        return f"status {st} not in {exp['status_in']}"
    if "stderr_end" in exp and not r.get("stderr", "").rstrip().endswith(exp["stderr_end"]):
        return f"stderr ends {r.get('stderr', '')[-120:]!r}, expected {exp['stderr_end']!r}"
    if "stderr_has" in exp and exp["stderr_has"] not in r.get("stderr", ""):
        return f"stderr lacks {exp['stderr_has']!r}: {r.get('stderr', '')[-160:]!r}"
    if "last" in exp and (not out or out[-1] != exp["last"]):
        return f"did not reach '{exp['last']}': stdout {out[-3:]} status {st} stderr {r.get('stderr', '')[-160:]!r}"
    if "first" in exp and (not out or out[0] != exp["first"]):
        return f"first line {out[:1]}"
    if st == "runtime_error" and "Traceback" not in r.get("stderr", "") and "code" not in exp:
        return f"error exit without a traceback: stderr {r.get('stderr', '')[-160:]!r}"
    return None
