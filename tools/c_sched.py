"""C07 (channel delivery) and C08 (progress / deadlock reporting).

Pipeline (DESIGN section 5, C07/C08):
  1. TLC exhaustive: Sched.tla (as-is scheduler) composed with Fibers.tla (contract) over all programs
     within small bounds; every bad terminal state is clustered into a class.
  2. TLC -simulate over larger bounds prints behaviours = (program, predicted event stream).
  3. The programs are rendered to Laythe source and run on the real VM with the "sched" hooks.
  4. Observed streams are validated against the CONTRACT by TLC (Trace_Fibers.tla).
  5. Verdict: contract rejection => KNOWN-FINDING iff the as-is model predicted exactly the observed
     stream and the rejection class is listed in known_findings.json, else VIOLATION.
     Observed != predicted while the contract accepts => model_drift (reported, exit 0).
"""
import json, os, sys, glob, collections
import vlib, schedlib

CAPS = {"q": ([1, 1], [True, False]), "sim": ([1, 1, 2], [True, False, False])}

# which rejection classes belong to which property
C07_CLASSES = ("handed-sender-moved", "guard:")
C08_CLASSES = ("deadlock:", "panic:", "hang", "after-end")


def kf_index():
    idx = {}
    for f in vlib.known_findings().get("findings", []):
        for cls in f.get("classes", []):
            idx[cls] = f
    return idx


def class_property(cls):
    if cls.startswith("deadlock:") or cls.startswith("panic:") or cls in ("hang", "after-end", "crash"):
        return "C08"
    return "C07"


def mc_exhaustive(tier, v):
    cfg = "MC_Sched_q" if tier == "quick" else "MC_Sched_t"
    r = vlib.tlc("MC_Sched", cfg, workers=min(vlib.NCPU, 12), timeout=3000, heap="24g", coverage=False)
    if r["timeout"] or (r["errors"] and r["distinct"] == 0):
        raise vlib.ToolError("TLC exhaustive run failed: " + "; ".join(r["errors"][:3]) + r["out"][-800:])
    classes = collections.Counter()
    for t in vlib.tlc_json(r["out"], "CLASS"):
        cls = t["bad"] if t["bad"] != "none" else t["end"]
        classes[cls] += 1
    if "Invariant Inv is violated" in r["out"]:
        raise vlib.ToolError("model invariant Inv violated: the as-is model is inconsistent\n" + r["out"][-1500:])
    v.cov["states"] += r["distinct"]
    v.cov["transitions"] += r["states"]
    v.notes["mc_config"] = cfg
    v.notes["mc_bad_state_classes"] = dict(classes)
    v.notes["mc_wall_s"] = round(r["wall"], 1)
    return classes


def witnesses(classes, cfgbase="MC_Sched_q"):
    """One shortest witness behaviour per class from the exhaustive config (BFS => minimal depth)."""
    out = {}
    base = open(os.path.join(vlib.SPEC, cfgbase + ".cfg")).read()
    for cls in classes:
        if cls.startswith("panic:"):
            wbad, wend = "none", cls
        elif cls.startswith("deadlock:"):
            wbad, wend = cls, "deadlock"
        else:
            # a delivery violation: any end state
            wbad, wend = cls, None
        cfg = base.replace("INVARIANT Inv\nINVARIANT Classify\n", "INVARIANT Witness\n" if wend else "INVARIANT WitnessBad\n")
        cfg = cfg.replace('WBad = "-"', f'WBad = "{wbad}"')
        if wend:
            cfg = cfg.replace('WEnd = "-"', f'WEnd = "{wend}"')
        name = "w_" + str(abs(hash(cls)) % 100000)
        with open(os.path.join(vlib.SPEC, name + ".cfg"), "w") as f:
            f.write(cfg)
        try:
            r = vlib.tlc("MC_Sched", name, workers=4, timeout=600)
        finally:
            os.remove(os.path.join(vlib.SPEC, name + ".cfg"))
        ws = vlib.tlc_json(r["out"], "WITNESS")
        if ws:
            out[cls] = ws[0]
    return out


def simulate(tier, v):
    num = 3000 if tier == "quick" else 120000
    r = vlib.tlc("MC_Sched", "MC_Sched_sim", workers=1 if tier == "quick" else 8, timeout=3000,
                 simulate=f"num={num}", extra=["-depth", "300", "-seed", str(vlib.seed())], heap="8g")
    behs = {}
    for b in vlib.tlc_json(r["out"], "BEHAVIOUR"):
        key = json.dumps(b["prog"], sort_keys=True)
        behs.setdefault(key, b)
    if not behs:
        raise vlib.ToolError("simulation produced no behaviours\n" + r["out"][-1500:])
    v.notes["simulated_behaviours"] = len(behs)
    return list(behs.values())


def fixture_cases():
    cases = []
    root = "/repo/laythe_vm/fixture/language"
    for d in ("channel", "launch"):
        for p in sorted(glob.glob(os.path.join(root, d, "*.lay"))):
            src = open(p).read()
            cases.append({"id": "fx:" + os.path.relpath(p, root), "files": {"main.lay": src},
                          "classes": ["sched"], "max_events": 20000})
    return cases


def validate_traces(runs, v):
    """runs: list of (run id, [uniform events]). One TLC run over the concatenation.
    Returns {run id: (reason, event index, ev, res)} for rejected runs."""
    os.makedirs(vlib.WORK, exist_ok=True)
    path = os.path.join(vlib.WORK, f"trace_fibers_{os.getpid()}.ndjson")
    index = []
    with open(path, "w") as f:
        for rid, evs in runs:
            rec = {"ev": "reset", "f": -1, "t": -1, "c": -1, "res": "", "v": "", "n": 0, "sync": False, "run": rid}
            f.write(json.dumps(rec) + "\n")
            index.append((rid, -1))
            for k, e in enumerate(evs):
                e = dict(e)
                e["run"] = rid
                f.write(json.dumps(e) + "\n")
                index.append((rid, k))
    r = vlib.tlc("Trace_Fibers", "Trace_Fibers", env={"TRACE": path}, workers=1, deque=True, timeout=3000, heap="8g")
    vlib.drop_trace(path, "fibers")
    if "NOT_CONSUMED" in r["out"] or r["distinct"] == 0 or "is violated" in r["out"]:
        raise vlib.ToolError("trace validation did not complete:\n" + r["out"][-2000:])
    v.cov["states"] += r["distinct"]
    v.cov["transitions"] += r["states"]
    rej = {}
    for t in vlib.tlc_json(r["out"], "REJECT"):
        line, rid, ev, res, reason = t["l"], t["run"], t["ev"], t["res"], t["reason"]
        if ev == "deadlock":
            cls = "deadlock:" + reason
        elif reason == "handed-sender-moved":
            cls = reason
        elif reason == "after-end":
            cls = reason
        else:
            cls = f"guard:{ev}:{res}"
        if rid not in rej:
            rej[rid] = (cls, index[line - 1][1])
    return rej


def predicted_stdout(evs):
    out = []
    for e in evs:
        if e["ev"] == "recv" and e["res"] == "ok":
            out.append(f"f{e['f']} {e['v']}")
        elif e["ev"] == "recv" and e["res"] == "closed":
            out.append(f"f{e['f']} nil")
    return out


def coverage_behaviours(tier, v):
    """All transitions of the exhaustive model, each with the history that reaches it (ACTION_CONSTRAINT
    EmitStep); returns the maximal histories as behaviours."""
    cfg = "MC_Sched_q_cov" if tier == "quick" else "MC_Sched_t_cov"
    r = vlib.tlc("MC_Sched", cfg, workers=min(vlib.NCPU, 12), timeout=3300, heap="24g")
    if r["timeout"] or r["distinct"] == 0 or "is violated" in r["out"]:
        raise vlib.ToolError("TLC coverage run failed:\n" + r["out"][-1500:])
    steps = vlib.tlc_json(r["out"], "STEP")
    if len(steps) < r["states"] - 1:
        raise vlib.ToolError(f"coverage run printed {len(steps)} steps for {r['states']} transitions")
    v.cov["states"] += r["distinct"]
    v.cov["transitions"] += r["states"]
    classes = collections.Counter()
    for st in steps:
        if st["end"] != "run":
            cls = st["bad"] if st["bad"] != "none" else st["end"]
            if cls not in ("exit", "error", "deadlock"):
                classes[cls] += 1
    v.notes["mc_config"] = cfg
    v.notes["mc_transitions_printed"] = len(steps)
    v.notes["mc_bad_terminal_classes"] = dict(classes)
    mx = schedlib.maximal_histories(steps)
    v.notes["mc_maximal_histories"] = len(mx)
    return [schedlib.parse_compact(m) for m in mx]


def focus_behaviours(v):
    """Finished behaviours of the 4 fibers x 2 channels x 3 operations model in which a waiter search skipped the entry
    of a finished fiber and found a live waiter behind it (Sched.tla FocusMode; after that step every fiber just
    ends, so the behaviour is determined).  This is the part of the 4-fiber space that the exhaustive 3-fiber
    replay cannot reach.  The TLC output is a function of the spec files only and is cached under work/ for the
    sister check (C07 / C08 run the same pipeline)."""
    import hashlib
    h = hashlib.sha1()
    for f in ("Sched.tla", "Fibers.tla", "MC_Sched.tla", "MC_Sched_focus.cfg"):
        h.update(open(os.path.join(vlib.SPEC, f), "rb").read())
    cache = os.path.join(vlib.WORK, f"focus_{h.hexdigest()[:16]}.json")
    if os.path.exists(cache):
        data = json.load(open(cache))
    else:
        r = vlib.tlc("MC_Sched", "MC_Sched_focus", workers=min(vlib.NCPU, 12), timeout=3000, heap="24g")
        if r["timeout"] or r["distinct"] == 0 or "is violated" in r["out"] or "No error has been found" not in r["out"]:
            raise vlib.ToolError("TLC focus run failed:\n" + r["out"][-1500:])
        data = {"steps": vlib.tlc_json(r["out"], "STEP"), "distinct": r["distinct"], "states": r["states"]}
        os.makedirs(vlib.WORK, exist_ok=True)
        with open(cache + ".tmp", "w") as f:
            json.dump(data, f)
        os.replace(cache + ".tmp", cache)
    v.cov["states"] += data["distinct"]
    v.cov["transitions"] += data["states"]
    seen, out = set(), []
    for st in data["steps"]:
        key = json.dumps(st["prog"], sort_keys=True)
        if key in seen:
            continue
        seen.add(key)
        out.append(schedlib.parse_compact(st))
    v.notes["focus_behaviours"] = len(out)
    return out


def model_classes(pred):
    """Defect classes the as-is model itself predicts for a behaviour."""
    out = []
    if pred["bad"] != "none":
        out.append(pred["bad"])
    if pred["end"].startswith("panic:"):
        out.append(pred["end"])
    return out


def run(pid, tier, replay=None):
    v = vlib.Verdict(pid, tier)
    v.cov["rule"] = ("programs = fiber scripts over {send,recv,close,launch} chosen by TLC from the as-is scheduler "
                     "model: one program per maximal history of the exhaustive state graph (every transition of the "
                     "model is exercised, 3 fibers x 2 channels x 3 ops quick / 3 x 2 x 4 thorough), simulated "
                     "behaviours for 4 x 3 x 5, plus the repository's channel/launch fixtures; a case is non-trivial "
                     "if at least one fiber blocks, sleeps or is launched; distinct by program text")
    v.assumptions = ["hook events are emitted at the points named in MANIFEST.hooks (after the channel operation, "
                     "before the next instruction; the queue/switch hooks after the assertion they follow)",
                     "generated programs end on the first runtime error (no try/catch around channel operations)",
                     "a run whose observed stream equals the model's prediction inherits the contract verdict TLC "
                     "computed for that behaviour of Sched.tla (composed with Fibers.tla); runs that differ, a "
                     "sample of the others and all fixture runs are validated against Fibers.tla directly"]
    binary = vlib.build_harness()
    kfi = kf_index()
    if pid == "C08" and not replay:
        # "never spins" at design level: with the histories in the fingerprint the behaviour graph of Sched.tla is a tree
        # (HistoryGrows), so the exhaustive search terminates exactly when no program within the bounds has an infinite
        # behaviour of the as-is scheduler (sleep / retry loops included)
        r = vlib.tlc("MC_Sched", "MC_Sched_noview", workers=min(vlib.NCPU, 12), timeout=1500, heap="24g")
        if r["timeout"]:
            v.violation("Sched.tla: the exhaustive search over behaviours does not terminate: some program within 3 fibers x 2 channels x 3 operations "
                        "makes the as-is scheduler run forever", {"tlc": r["out"][-2000:]})
        elif "No error has been found" not in r["out"]:
            raise vlib.ToolError("TLC no-view run failed:\n" + r["out"][-1500:])
        v.cov["states"] += r["distinct"]
        v.cov["transitions"] += r["states"]
        v.notes["no_infinite_behaviour_states"] = r["distinct"]
        # the same statement as a temporal property checked by TLC: FairSpec (weak fairness of the scheduler's step) => <>(end # "run");
        # a stuck non-terminal state or a cycle of steps is a counter-example
        r = vlib.tlc("MC_Sched", "MC_Sched_live", workers=min(vlib.NCPU, 8), timeout=1500, heap="16g")
        if "Temporal property" in r["out"] and "violated" in r["out"]:
            v.violation("Sched.tla: FairSpec => <>(end # \"run\") is violated: some program within 3 fibers x 2 channels x 3 operations neither ends "
                        "nor is reported as deadlocked", {"tlc": r["out"][-3000:]})
        elif r["timeout"] or "No error has been found" not in r["out"]:
            raise vlib.ToolError("TLC liveness run failed:\n" + r["out"][-1500:])
        v.cov["states"] += r["distinct"]
        v.cov["transitions"] += r["states"]
        v.notes["liveness_states"] = r["distinct"]

    cases, preds, mode = [], {}, {}
    if replay:
        rp = json.load(open(replay))["replay"]
        cases = [rp["case"]]
        preds[rp["case"]["id"]] = rp.get("predicted")
        mode[rp["case"]["id"]] = "prefix"
    else:
        caps, syncs = CAPS["q"]          # both coverage configurations use the two-channel layout (sync, capacity 1)
        for i, b in enumerate(coverage_behaviours(tier, v)):
            cid = f"cov:{i}"
            cases.append(schedlib.behaviour_to_case(b, caps, syncs, cid))
            preds[cid] = b
            mode[cid] = "prefix"
        caps, syncs = CAPS["q"]
        for i, b in enumerate(focus_behaviours(v)):
            cid = f"focus:{i}"
            cases.append(schedlib.behaviour_to_case(b, caps, syncs, cid))
            preds[cid] = b
            mode[cid] = "full"
        caps, syncs = CAPS["sim"]
        for i, b in enumerate(simulate(tier, v)):
            cid = f"sim:{i}"
            cases.append(schedlib.behaviour_to_case(b, caps, syncs, cid))
            preds[cid] = b
            mode[cid] = "full"
        for c in fixture_cases():
            cases.append(c)
            preds[c["id"]] = None
            mode[c["id"]] = "none"

    results = vlib.run_batch(binary, cases, per_case_timeout=20, jobs=vlib.NCPU)
    nontrivial = 0
    seen_src = set()
    to_validate = []
    verdicts = {}     # cid -> list of (class, detail, attributable)
    drift = []
    rnd = __import__("random").Random(vlib.seed())
    for c in cases:
        cid = c["id"]
        r = results.get(cid)
        if r is None:
            raise vlib.ToolError("no result for case " + cid)
        obs = [schedlib.norm_event(e) for e in r.get("events", [])]
        r["_obs"] = obs
        src = c["files"]["main.lay"]
        if src not in seen_src:
            seen_src.add(src)
            if any(e["ev"] == "launch" or (e["ev"] in ("send", "recv") and e["res"] not in ("ok", "closed")) for e in obs):
                nontrivial += 1
        pred = preds.get(cid)
        probs = []
        diff = None
        if pred is not None:
            diff = schedlib.first_diff(pred["evs"], obs, prefix=(mode[cid] == "prefix" or pred["end"] == "run"))
        r["_diff"] = diff
        if r["status"] == "hang":
            probs.append(("hang", "no result within the per-case timeout", False))
        elif r["status"] == "crash":
            probs.append(("crash", f"child died with signal/status {r.get('signal')}", False))
        if pred is not None and diff is None:
            # the observed stream is a behaviour of Sched.tla: inherit TLC's verdict for it
            for cls in model_classes(pred):
                probs.append((cls, "as predicted by the as-is model", True))
            if r["status"] == "panic" and not pred["end"].startswith("panic:") and mode[cid] == "full":
                probs.append(("panic:unpredicted", r.get("panic", ""), False))
            if mode[cid] == "full" and rnd.random() < (0.1 if tier == "quick" else 0.02):
                to_validate.append(cid)
        else:
            if r["status"] == "panic":
                msg = r.get("panic", "")
                cls = ("panic:activate" if "Pending | FiberState::Unwinding" in msg else
                       "panic:unblock" if "Blocked | FiberState::Pending" in msg else "panic:other")
                probs.append((cls, msg + " (not predicted)", False))
            to_validate.append(cid)
        verdicts[cid] = probs
    v.cov["evaluations"] = len(cases)
    v.cov["distinct_nontrivial"] = nontrivial

    rej = validate_traces([(cid, results[cid]["_obs"]) for cid in to_validate], v) if to_validate else {}
    # every case is bound to the implementation: its observed event stream is either equal to the behaviour TLC
    # produced for Sched.tla (replay direction) or validated against Fibers.tla by TLC (trace direction)
    v.cov["traces_validated_against_impl"] = len(cases)
    v.notes["traces_checked_by_tlc_against_contract"] = len(to_validate)
    v.notes["streams_equal_to_model_prediction"] = sum(1 for c in cases if preds.get(c["id"]) is not None and results[c["id"]]["_diff"] is None)
    for cid in to_validate:
        pred = preds.get(cid)
        matches = pred is not None and results[cid]["_diff"] is None
        if cid in rej:
            cls, at = rej[cid]
            if matches:
                # the sampled validation must agree with the verdict TLC computed on the model
                if cls not in [c for c, _, _ in verdicts[cid]]:
                    verdicts[cid].append((cls, f"contract rejects observed event #{at} although the model run accepted it", False))
            else:
                verdicts[cid].append((cls, f"contract rejects observed event #{at}", False))
        elif pred is not None and not matches:
            d = results[cid]["_diff"]
            drift.append({"case": cid, "at": d[0], "predicted": d[1], "observed": d[2]})

    # stdout must be what the observed receives say (binds print(<- c) to the delivered value)
    for c in cases:
        cid = c["id"]
        r = results[cid]
        if r["status"] in ("ok", "runtime_error") and not cid.startswith("fx:"):
            want = predicted_stdout(r["_obs"])
            got = r.get("stdout", "").splitlines()
            if want != got:
                verdicts[cid].append(("guard:stdout", f"printed {got[:6]} but receive events say {want[:6]}", False))

    counts = collections.Counter()
    bycase = {c["id"]: c for c in cases}
    for cid, probs in verdicts.items():
        for cls, detail, attributable in probs:
            if class_property(cls) != pid:
                continue
            counts[cls] += 1
            f = kfi.get(cls)
            if f is not None and attributable and pid in f["properties"]:
                v.known_finding(f["id"], cid)
            else:
                r = results[cid]
                v.violation(f"{cls}: {detail}; first difference from the as-is prediction: {r['_diff']}",
                            {"case": bycase[cid], "predicted": preds.get(cid), "class": cls,
                             "observed": [list(schedlib.comparable(e)) for e in r["_obs"]][:200],
                             "stdout": r.get("stdout", "")[:2000], "stderr": r.get("stderr", "")[:2000]})
    v.notes["classes_observed"] = dict(counts)
    v.notes["model_drift"] = len(drift) > 0
    v.notes["model_drift_cases"] = drift[:5]
    for c in cases[:2] + cases[len(cases) // 2: len(cases) // 2 + 2] + cases[-2:]:
        v.cov["samples"].append({"id": c["id"], "program": c["files"]["main.lay"],
                                 "observed_events": [list(schedlib.comparable(e)) for e in results[c["id"]]["_obs"]][:40]})
    if drift:
        vlib.log(f"[{pid}] model_drift: {len(drift)} case(s) where the as-is model mispredicts although the contract holds; first: {drift[0]}")
    return v.finish()
