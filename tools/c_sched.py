"""C07 (channel delivery) and C08 (progress / deadlock reporting).

Pipeline (DESIGN section 5, C07/C08):
  1. TLC exhaustive: Sched.tla (as-is scheduler) composed with Fibers.tla (contract) over all programs
     within small bounds; every bad terminal state is clustered into a class.
  2. TLC -simulate over larger bounds prints behaviours = (program, predicted event stream).
  3. The programs are rendered to Laythe source and run on the real VM with the "sched" hooks.
  4. Observed streams are validated against the CONTRACT by TLC (Trace_Fibers.tla).
  5. Verdict: contract rejection => KNOWN-FINDING iff the as-is model predicted exactly the observed
     stream and the rejection class is listed in known_findings.json, else VIOLATION.
     Observed != predicted while the contract accepts => model_drift (reported, exit 0).
"""
import json, os, sys, glob, collections
import vlib, schedlib

CAPS = {"q": ([1, 1], [True, False]), "sim": ([1, 1, 2], [True, False, False])}

# which rejection classes belong to which property
C07_CLASSES = ("handed-sender-moved", "guard:")
C08_CLASSES = ("deadlock:", "panic:", "hang", "after-end")


def kf_index():
    idx = {}
    for f in vlib.known_findings().get("findings", []):
        for cls in f.get("classes", []):
            idx[cls] = f
    return idx


def class_property(cls):
    if cls.startswith("deadlock:") or cls.startswith("panic:") or cls in ("hang", "after-end", "crash"):
        return "C08"
    return "C07"


def mc_exhaustive(tier, v):
    cfg = "MC_Sched_q" if tier == "quick" else "MC_Sched_t"
    r = vlib.tlc("MC_Sched", cfg, workers=min(vlib.NCPU, 12), timeout=3000, heap="24g", coverage=False)
    if r["timeout"] or (r["errors"] and r["distinct"] == 0):
        raise vlib.ToolError("TLC exhaustive run failed: " + "; ".join(r["errors"][:3]) + r["out"][-800:])
    classes = collections.Counter()
    for t in vlib.tlc_json(r["out"], "CLASS"):
        cls = t["bad"] if t["bad"] != "none" else t["end"]
        classes[cls] += 1
    if "Invariant Inv is violated" in r["out"]:
        raise vlib.ToolError("model invariant Inv violated: the as-is model is inconsistent\n" + r["out"][-1500:])
    v.cov["states"] += r["distinct"]
    v.cov["transitions"] += r["states"]
    v.notes["mc_config"] = cfg
    v.notes["mc_bad_state_classes"] = dict(classes)
    v.notes["mc_wall_s"] = round(r["wall"], 1)
    return classes


def witnesses(classes, cfgbase="MC_Sched_q"):
    """One shortest witness behaviour per class from the exhaustive config (BFS => minimal depth)."""
    out = {}
    base = open(os.path.join(vlib.SPEC, cfgbase + ".cfg")).read()
    for cls in classes:
        if cls.startswith("panic:"):
            wbad, wend = "none", cls
        elif cls.startswith("deadlock:"):
            wbad, wend = cls, "deadlock"
        else:
            # a delivery violation: any end state
            wbad, wend = cls, None
        cfg = base.replace("INVARIANT Inv\nINVARIANT Classify\n", "INVARIANT Witness\n" if wend else "INVARIANT WitnessBad\n")
        cfg = cfg.replace('WBad = "-"', f'WBad = "{wbad}"')
        if wend:
            cfg = cfg.replace('WEnd = "-"', f'WEnd = "{wend}"')
        name = "w_" + str(abs(hash(cls)) % 100000)
        with open(os.path.join(vlib.SPEC, name + ".cfg"), "w") as f:
            f.write(cfg)
        try:
            r = vlib.tlc("MC_Sched", name, workers=4, timeout=600)
        finally:
            os.remove(os.path.join(vlib.SPEC, name + ".cfg"))
        ws = vlib.tlc_json(r["out"], "WITNESS")
        if ws:
            out[cls] = ws[0]
    return out


def simulate(tier, v):
    num = 3000 if tier == "quick" else 120000
    r = vlib.tlc("MC_Sched", "MC_Sched_sim", workers=1 if tier == "quick" else 8, timeout=3000,
                 simulate=f"num={num}", extra=["-depth", "300", "-seed", str(vlib.seed())], heap="8g")
    behs = {}
    for b in vlib.tlc_json(r["out"], "BEHAVIOUR"):
        key = json.dumps(b["prog"], sort_keys=True)
        behs.setdefault(key, b)
    if not behs:
        raise vlib.ToolError("simulation produced no behaviours\n" + r["out"][-1500:])
    v.notes["simulated_behaviours"] = len(behs)
    return list(behs.values())


def fixture_cases():
    cases = []
    root = "/repo/laythe_vm/fixture/language"
    for d in ("channel", "launch"):
        for p in sorted(glob.glob(os.path.join(root, d, "*.lay"))):
            src = open(p).read()
            cases.append({"id": "fx:" + os.path.relpath(p, root), "files": {"main.lay": src},
                          "classes": ["sched"], "max_events": 20000})
    return cases


def validate_traces(runs, v):
    """runs: list of (run id, [uniform events]). One TLC run over the concatenation.
    Returns {run id: (reason, event index, ev, res)} for rejected runs."""
    os.makedirs(vlib.WORK, exist_ok=True)
    path = os.path.join(vlib.WORK, f"trace_fibers_{os.getpid()}.ndjson")
    index = []
    with open(path, "w") as f:
        for rid, evs in runs:
            rec = {"ev": "reset", "f": -1, "t": -1, "c": -1, "res": "", "v": "", "n": 0, "sync": False, "run": rid}
            f.write(json.dumps(rec) + "\n")
            index.append((rid, -1))
            for k, e in enumerate(evs):
                e = dict(e)
                e["run"] = rid
                f.write(json.dumps(e) + "\n")
                index.append((rid, k))
    r = vlib.tlc("Trace_Fibers", "Trace_Fibers", env={"TRACE": path}, workers=1, deque=True, timeout=3000, heap="8g")
    os.remove(path)
    if "NOT_CONSUMED" in r["out"] or r["distinct"] == 0 or "is violated" in r["out"]:
        raise vlib.ToolError("trace validation did not complete:\n" + r["out"][-2000:])
    v.cov["states"] += r["distinct"]
    v.cov["transitions"] += r["states"]
    rej = {}
    for t in vlib.tlc_json(r["out"], "REJECT"):
        line, rid, ev, res, reason = t["l"], t["run"], t["ev"], t["res"], t["reason"]
        if ev == "deadlock":
            cls = "deadlock:" + reason
        elif reason == "handed-sender-moved":
            cls = reason
        elif reason == "after-end":
            cls = reason
        else:
            cls = f"guard:{ev}:{res}"
        if rid not in rej:
            rej[rid] = (cls, index[line - 1][1])
    return rej


def predicted_stdout(evs):
    out = []
    for e in evs:
        if e["ev"] == "recv" and e["res"] == "ok":
            out.append(f"f{e['f']} {e['v']}")
        elif e["ev"] == "recv" and e["res"] == "closed":
            out.append(f"f{e['f']} nil")
    return out


def run(pid, tier, replay=None):
    v = vlib.Verdict(pid, tier)
    v.cov["rule"] = ("programs = fiber scripts over {send,recv,close,launch} chosen by TLC from the as-is scheduler "
                     "model (exhaustive for 3 fibers x 2 channels x 3 ops, simulated for 4 x 3 x 5) plus the "
                     "repository's channel/launch fixtures; a case is non-trivial if at least one fiber blocks, "
                     "sleeps or is launched; distinct by program text")
    v.assumptions = ["hook events are emitted at the points named in MANIFEST.hooks (after the channel operation, "
                     "before the next instruction)",
                     "generated programs end on the first runtime error (no try/catch around channel operations)"]
    binary = vlib.build_harness()
    kfi = kf_index()

    if replay:
        rp = json.load(open(replay))["replay"]
        cases = [rp["case"]]
        preds = {rp["case"]["id"]: rp.get("predicted")}
    else:
        classes = mc_exhaustive(tier, v)
        wit = witnesses(classes)
        behs = simulate(tier, v)
        cases, preds = [], {}
        caps, syncs = CAPS["q"]
        for cls, b in wit.items():
            cid = "wit:" + cls
            cases.append(schedlib.behaviour_to_case(b, caps, syncs, cid))
            preds[cid] = b
        caps, syncs = CAPS["sim"]
        for i, b in enumerate(behs):
            cid = f"sim:{i}"
            cases.append(schedlib.behaviour_to_case(b, caps, syncs, cid))
            preds[cid] = b
        fx = fixture_cases()
        cases += fx
        for c in fx:
            preds[c["id"]] = None

    results = vlib.run_batch(binary, cases, per_case_timeout=15)
    runs = []
    drift = []
    nontrivial = 0
    seen_src = set()
    for c in cases:
        r = results.get(c["id"])
        if r is None:
            raise vlib.ToolError("no result for case " + c["id"])
        obs = [schedlib.norm_event(e) for e in r.get("events", [])]
        r["_obs"] = obs
        runs.append((c["id"], obs))
        src = c["files"]["main.lay"]
        if src not in seen_src:
            seen_src.add(src)
            if any(e["ev"] in ("launch",) or (e["ev"] in ("send", "recv") and e["res"] not in ("ok", "closed")) for e in obs):
                nontrivial += 1
    v.cov["evaluations"] = len(cases)
    v.cov["distinct_nontrivial"] = nontrivial
    v.cov["traces_validated_against_impl"] = len(runs)

    rej = validate_traces(runs, v)

    counts = collections.Counter()
    for c in cases:
        cid = c["id"]
        r = results[cid]
        pred = preds.get(cid)
        obs = r["_obs"]
        diff = schedlib.first_diff(pred["evs"], obs, prefix=(pred["end"] == "run")) if pred else None
        matches_pred = pred is not None and diff is None
        problems = []   # (class, detail)
        if r["status"] == "hang":
            problems.append(("hang", "no result within the per-case timeout"))
        elif r["status"] == "crash":
            problems.append(("crash", f"child died with signal/status {r.get('signal')}"))
        elif r["status"] == "panic":
            msg = r.get("panic", "")
            if "fiber/mod.rs" in msg and "FiberState::Pending | FiberState::Unwinding" in msg:
                cls = "panic:activate"
            elif "fiber/mod.rs" in msg and "FiberState::Blocked | FiberState::Pending" in msg:
                cls = "panic:unblock"
            else:
                cls = "panic:other"
            # the as-is model predicts a panic through its `end`
            if matches_pred and pred["end"] == cls:
                problems.append((cls, msg))
            else:
                problems.append((cls + ":unpredicted", msg))
        if cid in rej:
            problems.append((rej[cid][0], f"contract rejects observed event #{rej[cid][1]}"))
        # stdout must be what the observed receives say (binds print(<- c) to the delivered value)
        if r["status"] in ("ok", "runtime_error") and not cid.startswith("fx:"):
            want = predicted_stdout(obs)
            got = [l for l in r.get("stdout", "").splitlines()]
            if want != got:
                problems.append(("guard:stdout", f"printed {got[:6]} but receive events say {want[:6]}"))
        if pred and diff is not None and not problems:
            drift.append({"case": cid, "at": diff[0], "predicted": diff[1], "observed": diff[2]})
        for cls, detail in problems:
            if class_property(cls) != pid:
                continue
            counts[cls] += 1
            f = kfi.get(cls)
            if f is not None and matches_pred and pid in f["properties"]:
                v.known_finding(f["id"], cid)
            else:
                why = "" if matches_pred else (" (as-is model predicted a different stream: first difference "
                                               f"{diff})" if pred else " (no as-is prediction for this case)")
                v.violation(f"{cls}: {detail}{why}",
                            {"case": c, "predicted": pred, "class": cls,
                             "observed": [schedlib.comparable(e) for e in obs][:200],
                             "stdout": r.get("stdout", "")[:2000], "stderr": r.get("stderr", "")[:2000]})
    v.notes["rejection_classes_observed"] = dict(counts)
    v.notes["model_drift"] = len(drift) > 0
    v.notes["model_drift_cases"] = drift[:5]
    v.notes["as_is_conformance"] = {"cases_with_prediction": sum(1 for c in cases if preds.get(c["id"])),
                                    "stream_mismatches": len(drift)}
    for c in cases[:3] + [c for c in cases if c["id"].startswith("wit:")][:2]:
        v.cov["samples"].append({"id": c["id"], "program": c["files"]["main.lay"],
                                 "observed_events": [list(schedlib.comparable(e)) for e in results[c["id"]]["_obs"]][:40]})
    if drift:
        vlib.log(f"[{pid}] model_drift: {len(drift)} case(s) where the as-is model mispredicts although the contract holds; first: {drift[0]}")
    return v.finish()
