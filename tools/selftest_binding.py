#!/usr/bin/env python3
"""Binding self-test: every trace specification must accept the traces recorded from the unchanged VM and refuse
them once they are corrupted.  Usage: tools/selftest_binding.py  (runs the quick checks C05 C13 C04 C07 C15 with
VERIF_KEEP_TRACES=1, then corrupts each kept trace in several ways and re-validates it with TLC).
Corruptions: delete one event, duplicate one event, swap two neighbouring events, change one numeric field by one,
change one string field.  Reported per trace spec: corrupted traces tried / refused (a corruption can be harmless:
deleting an event that does not change the contract state is accepted, and that is correct)."""
import json, os, random, subprocess, sys
sys.path.insert(0, os.path.dirname(os.path.abspath(__file__)))
import vlib

SPECS = {"gc": ("Trace_Gc", "C05"), "cache": ("Trace_Cache", "C13"), "unwind": ("Trace_Unwind", "C04"), "fibers": ("Trace_Fibers", "C07"),
         "frontend": ("Trace_Frontend", "C15")}


def runs_of(recs):
    """split a concatenated trace at its run boundaries (reset / start records)"""
    out, cur = [], []
    for r in recs:
        if r.get("ev") in ("reset", "start") and cur:
            out.append(cur)
            cur = []
        cur.append(r)
    if cur:
        out.append(cur)
    return out


def corrupt(rnd, run):
    run = [dict(r) for r in run]
    if len(run) < 4:
        return None, None
    k = rnd.randrange(1, len(run))
    how = rnd.choice(["delete", "duplicate", "swap", "number", "string"])
    if how == "delete":
        what = run[k]; del run[k]
    elif how == "duplicate":
        what = run[k]; run.insert(k, dict(run[k]))
    elif how == "swap" and k + 1 < len(run):
        what = (run[k], run[k + 1]); run[k], run[k + 1] = run[k + 1], run[k]
    elif how == "number":
        nums = [f for f, v in run[k].items() if isinstance(v, int) and not isinstance(v, bool) and f not in ("run", "l")]
        if not nums:
            return None, None
        f = rnd.choice(nums); what = (run[k].get("ev"), f, run[k][f]); run[k][f] = run[k][f] + 1
    else:
        strs = [f for f, v in run[k].items() if isinstance(v, str) and f not in ("run", "case", "name") and v]
        if not strs:
            return None, None
        f = rnd.choice(strs); what = (run[k].get("ev"), f, run[k][f]); run[k][f] = run[k][f] + "x"
    return run, f"{how}: {json.dumps(what)[:120]}"


def validate(spec, recs):
    path = os.path.join(vlib.WORK, f"selftest_{os.getpid()}.ndjson")
    with open(path, "w") as f:
        for r in recs:
            f.write(json.dumps(r) + "\n")
    r = vlib.tlc(spec, spec, env={"TRACE": path}, workers=1, deque=True, timeout=1800, heap="8g")
    os.remove(path)
    if "NOT_CONSUMED" in r["out"] or r["distinct"] == 0:
        return None
    return vlib.tlc_json(r["out"], "REJECT")


def main():
    rnd = random.Random(7)
    env = dict(os.environ, VERIF_KEEP_TRACES="1")
    for pid in sorted({p for _, p in SPECS.values()}):
        subprocess.run([os.path.join(vlib.VERIF, "check"), pid, "--tier", "quick"], env=env, stdout=subprocess.DEVNULL, stderr=subprocess.DEVNULL)
    summary = {}
    for name, (spec, pid) in SPECS.items():
        path = os.path.join(vlib.WORK, "keep", name + ".ndjson")
        if not os.path.exists(path):
            print(name, "no kept trace"); continue
        recs = [json.loads(l) for l in open(path)]
        runs = runs_of(recs)
        base = validate(spec, recs[:60000])
        sample = rnd.sample(runs, min(40, len(runs)))
        tried, corrupted = [], []
        for k, run in enumerate(sample):
            c, how = corrupt(rnd, run)
            if c is None:
                continue
            for r in c:
                if "run" in r: r["run"] = f"st{k}"
                if "case" in r: r["case"] = f"st{k}"
            tried.append((f"st{k}", how))
            corrupted += c
        rej = validate(spec, corrupted)
        refused = {r.get("run", r.get("case")) for r in (rej or [])}
        summary[name] = {"events_in_kept_trace": len(recs), "runs": len(runs), "unchanged_trace_rejections": None if base is None else len(base),
                         "corrupted_runs": len(tried), "refused": len(refused),
                         "accepted_examples": [h for k, h in tried if k not in refused][:4]}
        print(name, json.dumps(summary[name])[:600])
    json.dump(summary, open(os.path.join(vlib.WORK, "selftest_binding.json"), "w"), indent=1)


if __name__ == "__main__":
    main()
