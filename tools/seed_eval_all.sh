#!/bin/bash
# re-evaluate every seeded change on the current tree: its own property's quick check plus the checks recorded before
cd /verif
for d in seeded/*/; do
  s=$(basename $d)
  checks=$(python3 -c "
import json,os
m=json.load(open('$d/meta.json')); e=json.load(open('$d/eval.json')) if os.path.exists('$d/eval.json') else {}
print(' '.join(sorted(set([m['property']]+list(e.keys())))))")
  python3 tools/seed_eval.py $s $checks 2>&1 | grep "exit"
done
git -C /repo status --porcelain --untracked-files=no
