"""C07/C08 helpers: render fiber programs chosen by Sched.tla as Laythe source, normalise the VM's
scheduler events to the uniform record shape of Fibers.tla, compare predicted and observed streams."""
import json

FIELDS = ("ev", "f", "t", "c", "res", "v", "n", "sync")


def norm_event(e):
    """VM hook event -> uniform record used by the TLA+ specs."""
    ev = e.get("ev")
    out = {"ev": ev, "f": -1, "t": -1, "c": -1, "res": "", "v": "", "n": 0, "sync": False}
    if ev in ("send", "recv"):
        out.update(f=e["f"], c=e["c"], res=e["res"], v=e.get("v", ""), n=e.get("len", 0))
        if ev == "recv" and e["res"] != "ok":
            out["v"] = ""
        if ev == "recv" and e["res"] in ("empty", "emptyblock", "closed"):
            out["n"] = 0 if e.get("len", 0) == 0 else e.get("len", 0)
    elif ev == "close":
        out.update(c=e["c"], res=e["res"], n=e.get("len", 0))
    elif ev == "chan":
        out.update(f=e["f"], c=e["c"], n=e["cap"], sync=e["sync"])
    elif ev == "launch":
        out.update(f=e["f"], t=e["t"])
    elif ev == "queue":
        out.update(t=e["t"])
    elif ev in ("switch", "complete", "deadlock", "exit", "main"):
        out.update(f=e["f"])
    return out


def pred_event(e):
    """Event predicted by Sched.tla (already uniform) -> comparable tuple."""
    return comparable(e)


def comparable(e):
    ev = e["ev"]
    if ev in ("send",):
        return (ev, e["f"], e["c"], e["res"], e["v"], e["n"])
    if ev == "recv":
        return (ev, e["f"], e["c"], e["res"], e["v"] if e["res"] == "ok" else "", e["n"])
    if ev == "close":
        return (ev, e["c"], e["res"], e["n"])
    if ev == "launch":
        return (ev, e["f"], e["t"])
    if ev == "queue":
        return (ev, e["t"])
    if ev in ("switch", "complete", "exit"):
        return (ev, e["f"])
    if ev == "deadlock":
        return (ev,)
    return (ev,)


COMPARED = {"send", "recv", "close", "launch", "queue", "switch", "complete", "exit", "deadlock"}


def render_program(prog, caps, syncs):
    """prog: {fiber id (str or int): [ {k, c}, ... ]} as chosen by Sched.tla. Fiber t's body is the
    function f<t>; launch always starts the smallest unborn fiber, which in program order of the
    deterministic scheduler is the next launch executed, so launches are numbered at generation time
    by the model and simply replayed here in the order the model chose them."""
    prog = {int(k): v for k, v in prog.items()}
    nf = max(prog) + 1 if prog else 1
    nchan = len(caps)
    params = ", ".join(f"c{i}" for i in range(nchan))
    lines = []
    for i in range(nchan):
        if syncs[i]:
            lines.append(f"let c{i} = chan();")
        else:
            lines.append(f"let c{i} = chan({caps[i]});")
    return lines, prog, nf, params


def program_source(prog, caps, syncs, launch_targets):
    """launch_targets: {(fiber, op index 1-based): child id} taken from the predicted events."""
    lines, prog, nf, params = render_program(prog, caps, syncs)

    def body(f, ops, indent):
        out = []
        for i, o in enumerate(ops, start=1):
            k, c = o["k"], o["c"]
            if k == "send":
                out.append(f"{indent}c{c} <- {10 * (f + 1) + i};")
            elif k == "recv":
                out.append(f'{indent}print("f{f}", <- c{c});')
            elif k == "close":
                out.append(f"{indent}c{c}.close();")
            elif k == "launch":
                t = launch_targets.get((f, i))
                if t is None:
                    # never executed in the predicted behaviour: any defined function will do
                    t = f
                out.append(f"{indent}launch f{t}({params});")
            elif k == "end":
                break
        return out

    fids = sorted(set(prog) | set(launch_targets.values()))
    for f in fids:
        if f == 0:
            continue
        lines.append(f"fn f{f}({params}) {{")
        lines += body(f, prog.get(f, []), "  ")
        lines.append("}")
    lines += body(0, prog.get(0, []), "")
    return "\n".join(lines) + "\n"


def launch_targets_from(prog, evs):
    """Map each executed launch op to the child id the model gave it."""
    prog = {int(k): v for k, v in prog.items()}
    # k-th launch event of fiber f corresponds to the k-th launch op in f's program
    counts = {}
    targets = {}
    for e in evs:
        if e["ev"] == "launch":
            f = e["f"]
            k = counts.get(f, 0)
            counts[f] = k + 1
            idx = [i for i, o in enumerate(prog.get(f, []), start=1) if o["k"] == "launch"]
            if k < len(idx):
                targets[(f, idx[k])] = e["t"]
    return targets


def behaviour_to_case(beh, caps, syncs, cid):
    prog, evs = beh["prog"], beh["evs"]
    targets = launch_targets_from(prog, evs)
    src = program_source(prog, caps, syncs, targets)
    return {"id": cid, "files": {"main.lay": src}, "classes": ["sched"], "max_events": 5000}


def first_diff(pred, obs, prefix=False):
    """pred/obs: lists of uniform events; compares the COMPARED subset. Returns None or (index, p, o).
    With prefix=True the prediction only has to be a prefix of the observation (witness behaviours are
    cut at the first bad state)."""
    p = [comparable(e) for e in pred if e["ev"] in COMPARED]
    o = [comparable(e) for e in obs if e["ev"] in COMPARED]
    for i in range(len(p) if prefix else max(len(p), len(o))):
        a = p[i] if i < len(p) else None
        b = o[i] if i < len(o) else None
        if a != b:
            return (i, a, b)
    return None


def parse_compact(step):
    """STEP record with compact strings -> behaviour with uniform event records and op records."""
    evs = []
    for x in step["evs"]:
        ev, f, t, c, res, v, n = x.split("|")
        evs.append({"ev": ev, "f": int(f), "t": int(t), "c": int(c), "res": res, "v": v, "n": int(n), "sync": False})
    prog = {}
    for f, ops in step["prog"].items():
        lst = []
        for o in ops:
            for k in ("send", "recv", "close", "launch", "end"):
                if o.startswith(k):
                    lst.append({"k": k, "c": int(o[len(k):])})
                    break
        prog[f] = lst
    return {"prog": prog, "evs": evs, "end": step["end"], "bad": step["bad"]}


def maximal_histories(steps):
    """Keep the printed histories that are not a proper prefix of another one (each step appends one or
    two events, and the printed histories are the paths of TLC's search tree, so it is enough to strike
    the parent of every history)."""
    keys = {}
    for s in steps:
        keys[tuple(s["evs"])] = s
    non_max = set()
    for k in keys:
        if len(k) >= 1:
            non_max.add(k[:-1])
        if len(k) >= 2:
            non_max.add(k[:-2])
    return [s for k, s in keys.items() if k not in non_max]


def program_source_heap(prog, caps, syncs, launch_targets):
    """Same programs, but every value that crosses a channel is a freshly built string, every fiber body is a
    closure made by a factory (capturing a fresh string) and launched straight from the temporary: the only
    references to these objects are channel buffers, parked fibers' stacks and frames' captures (C05)."""
    lines, prog, nf, params = render_program(prog, caps, syncs)

    def body(f, ops, indent):
        out = []
        for i, o in enumerate(ops, start=1):
            k, c = o["k"], o["c"]
            if k == "send":
                out.append(f'{indent}c{c} <- "s" + {10 * (f + 1) + i}.str();')
            elif k == "recv":
                out.append(f'{indent}print("f{f}", <- c{c});')
            elif k == "close":
                out.append(f"{indent}c{c}.close();")
            elif k == "launch":
                t = launch_targets.get((f, i))
                if t is None:
                    t = f
                out.append(f'{indent}launch mk{t}("T" + {t}.str())({params});')
            elif k == "end":
                break
        return out

    fids = sorted(set(prog) | set(launch_targets.values()))
    for f in fids:
        if f == 0:
            continue
        lines.append(f"fn mk{f}(tag) {{")
        lines.append(f"  let junk = [tag, tag];")
        lines.append(f"  return |{params}| {{")
        lines += body(f, prog.get(f, []), "    ")
        lines.append(f'    print("tag", tag);')
        lines.append("  };")
        lines.append("}")
    lines += body(0, prog.get(0, []), "")
    return "\n".join(lines) + "\n"


def heap_stdout(evs):
    """stdout the heap variant must print, from a (predicted or observed) event stream"""
    out = []
    for e in evs:
        if e["ev"] == "recv" and e["res"] == "ok":
            v = e["v"].strip("'")
            out.append(f"f{e['f']} " + (v if v.startswith("s") else "s" + v))
        elif e["ev"] == "recv" and e["res"] == "closed":
            out.append(f"f{e['f']} nil")
        elif e["ev"] == "complete":
            out.append(f"tag T{e['f']}")
    return out


def wrap_programs(rnd, n):
    """single-fiber scripts over one buffered channel that make its ring buffer wrap (fill, drain part, refill) while
    garbage is created; every value is a fresh string or list.  Returns [(source, script)]."""
    out = []
    for _ in range(n):
        cap = rnd.randint(1, 5)
        lines = [f"let c = chan({cap});", "let junk = nil;"]
        inbuf = 0
        k = 0
        script = []
        for _ in range(rnd.randint(6, 18)):
            can_send = inbuf < cap
            can_recv = inbuf > 0
            op = rnd.choice(["send"] * 3 + ["recv"] * 2 + ["junk"]) if can_send and can_recv else ("send" if can_send else "recv")
            if op == "send":
                k += 1
                if rnd.random() < 0.5:
                    lines.append(f'c <- "v" + {k}.str();')
                else:
                    lines.append(f'c <- ["v" + {k}.str(), {k}];')
                inbuf += 1
            elif op == "recv":
                lines.append('print("f0", <- c);')
                inbuf -= 1
            else:
                lines.append(f'junk = ["x" + {k}.str(), [1, 2, 3], "y"];')
        if rnd.random() < 0.5:
            lines.append("c.close();")
            for _ in range(inbuf + 1):
                lines.append('print("f0", <- c);')
        out.append("\n".join(lines) + "\n")
    return out
