"""C13: inline caches are transparent.
(1) every class program is executed by TLC on Lang.tla (prediction) and run on the VM three ways: caches on,
    every probe forced to miss (hook switch), caches on under a dense collection schedule - all must match;
(2) the cache events of those runs (class table construction, every probe with its result) are validated by TLC
    against the contract Cache.tla: each result, hit or miss, must be what a lookup in the receiver's current class gives."""
import json, os, random, collections
import vlib, lang, langrun, gen, c_lang
from lang import *


def churn_program(rnd):
    """classes created and dropped at run time, visited by the same sites, with field layouts that differ"""
    n = rnd.randint(2, 4)
    makers = []
    mod = []
    for k in range(n):
        fields = rnd.sample(["a", "b", "c", "d"], rnd.randint(1, 3))
        init = [ExprSt(PropSet(Self(), f, Num(10 * k + i))) for i, f in enumerate(fields)]
        meths = [Fn("init", [], Block(init), "init"), Fn("who", [], Block([Return(Str(f"K{k}"))]), "method")]
        if rnd.random() < 0.5:
            meths.append(Fn("extra", [], Block([Return(Num(k))]), "method"))
        mod.append(Fn(f"mk{k}", [], Block([Class("Local", None, meths), Return(Call(Var("Local"), []))])))
        makers.append((f"mk{k}", fields))
    # shared sites
    mod.append(Fn("probe", ["o"], Block([
        Try(Block([Print(Invoke(Var("o"), "who", []), Prop(Var("o"), "a"))]), [Catch("e1", "Error", Block([Print(Str("no a"))]))]),
        Try(Block([ExprSt(PropSet(Var("o"), "b", Num(5))), Print(Prop(Var("o"), "b"))]), [Catch("e2", "Error", Block([Print(Str("no b"))]))]),
        Try(Block([Print(Invoke(Var("o"), "extra", []))]), [Catch("e3", "Error", Block([Print(Str("no extra"))]))]),
    ])))
    rounds = rnd.randint(3, 8)
    seq = [rnd.randrange(n) for _ in range(rounds)]
    for k in seq:
        # garbage between the visits so that dropped classes can be collected and their addresses reused
        mod.append(Let(f"junk{len(mod)}", List([Str("x" * 3), Str("y"), Num(1)])))
        mod.append(ExprSt(Call(Var("probe"), [Call(Var(makers[k][0]), [])])))
    return Module(mod)


def cache_events(r, rid):
    out = [{"ev": "reset", "c": -1, "s": -1, "name": "", "idx": -1, "mid": -1, "kind": "", "hit": False, "run": rid}]
    for e in r.get("events", []):
        out.append({"ev": e["ev"], "c": e.get("c", -1), "s": e.get("s", -1), "name": e.get("name", ""), "idx": e.get("idx", -1),
                    "mid": e.get("mid", -1), "kind": e.get("kind", ""), "hit": bool(e.get("hit", False)), "run": rid})
    return out


def run(pid, tier, replay=None):
    v = vlib.Verdict(pid, tier)
    rnd = random.Random(vlib.seed() * 31 + 13)
    binary = vlib.build_harness()
    sess_only = None
    if replay:
        rp = json.load(open(replay))["replay"]
        progs = [(rp["id"], rp["ast"])]
        if rp.get("session"):
            sess_only, progs = [(rp["id"], rp["ast"])], []
    else:
        n = 250 if tier == "quick" else 8000
        progs = [(f"cls:{i}", gen.program_c03(rnd)) for i in range(n)] + \
                [(f"churn:{i}", churn_program(rnd)) for i in range(n // 2)]
    cases = []
    for cid, ast in progs:
        rec = lang.case_record(cid, ast)
        rec["ast"] = ast
        cases.append(rec)
    preds = langrun.predict(cases, v)
    modes = [("cached", {"classes": ["cache"]}),
             ("forced-miss", {"force_miss": True}),
             ("cached+gc", {"classes": ["cache"], "gc": {"every": 3, "force_full": True}})]
    traces = []
    judged = 0
    for mname, extra in modes:
        vmcases = []
        for c in cases:
            src, _ = lang.to_source(c["ast"])
            d = {"id": c["id"], "files": {"main.lay": src}, "max_events": 60000}
            d.update(extra)
            vmcases.append(d)
        res = vlib.run_batch(binary, vmcases, per_case_timeout=40)
        for c in cases:
            p = preds[c["id"]]
            if p["st"].startswith("skip") or p["st"].startswith("model-error"):
                continue
            r = res[c["id"]]
            judged += 1
            diff = langrun.compare(p, r)
            if diff:
                v.violation(f"{c['id']} [{mname}]: {diff}"[:500],
                            {"id": c["id"], "ast": c["ast"], "mode": mname, "source": lang.to_source(c["ast"])[0],
                             "predicted": {"out": p["out"], "st": p["st"]},
                             "observed": {"stdout": r.get("stdout", "")[:2000], "stderr": r.get("stderr", "")[-800:], "panic": r.get("panic", "")}})
            if "classes" in extra:
                traces += cache_events(r, f"{c['id']}|{mname}")
    # (3) the class programs once more as interactive sessions, one entry per prompt line: every entry is compiled into the
    #     live module and its sites get cache slots behind those of the earlier entries; cached and forced-miss
    sess = []
    for cid, ast in (sess_only if sess_only is not None else [(c, a) for c, a in progs if c.startswith("cls:")][:2000]):
        sast = ast if ast["k"] == "session" else lang.Session(list(ast["kids"]))
        rec = lang.case_record(cid if cid.startswith("s:") else "s:" + cid, sast)
        rec["ast"] = sast
        sess.append(rec)
    if sess:
        spreds = langrun.predict(sess, v)
        for mname, extra in (("session cached", {}), ("session forced-miss", {"force_miss": True})):
            vmcases = [dict({"id": c["id"], "repl": [c_lang.one_line(lang.to_source(st, "canon")[0]).strip() for st in c["ast"]["kids"]]}, **extra) for c in sess]
            res = vlib.run_batch(binary, vmcases, per_case_timeout=40)
            for c, vc in zip(sess, vmcases):
                p = spreds[c["id"]]
                if p["st"].startswith("skip") or p["st"].startswith("model-error"):
                    continue
                r = res[c["id"]]
                judged += 1
                diff = c_lang.compare_repl(p, r)
                if r.get("status") in ("panic", "crash", "timeout", "hang"):
                    diff = f"{r.get('status')} {str(r.get('panic'))[:200]}"
                if diff:
                    v.violation(f"{c['id']} [{mname}]: {diff}"[:500],
                                {"id": c["id"], "ast": c["ast"], "session": True, "mode": mname, "source": "\n".join(vc["repl"]),
                                 "predicted": {"out": p["out"], "st": p["st"]},
                                 "observed": {"stdout": r.get("stdout", "")[:2000], "stderr": r.get("stderr", "")[-800:], "panic": r.get("panic", "")}})
        v.notes["sessions"] = len(sess)
    # TLC validates every cache event stream against the contract
    probes = hits = 0
    if traces:
        os.makedirs(vlib.WORK, exist_ok=True)
        path = os.path.join(vlib.WORK, f"trace_cache_{os.getpid()}.ndjson")
        with open(path, "w") as f:
            for e in traces:
                f.write(json.dumps(e) + "\n")
        r = vlib.tlc("Trace_Cache", "Trace_Cache", env={"TRACE": path}, workers=1, deque=True, timeout=3000, heap="16g")
        vlib.drop_trace(path, "cache")
        if "NOT_CONSUMED" in r["out"] or r["distinct"] == 0 or any(e.startswith("Error:") for e in r["errors"]):
            raise vlib.ToolError("cache trace validation did not complete:\n" + r["out"][-2500:])
        v.cov["states"] += r["distinct"]
        v.cov["transitions"] += r["states"]
        probes = sum(1 for e in traces if e["ev"] == "probe")
        hits = sum(1 for e in traces if e["ev"] == "probe" and e["hit"])
        bycase = {c["id"]: c for c in cases}
        for rej in vlib.tlc_json(r["out"], "REJECT"):
            cid = rej["run"].split("|")[0]
            c = bycase[cid]
            v.violation(f"{rej['run']}: cache event refused by the contract: {rej['ev']} {rej['kind']} '{rej['name']}' on class#{rej['c']} "
                        f"hit={rej['hit']} produced idx={rej['idx']} mid={rej['mid']} but the class table says {rej['want']}"[:500],
                        {"id": cid, "ast": c["ast"], "source": lang.to_source(c["ast"])[0], "event": rej})
    v.cov["evaluations"] = judged
    v.cov["distinct_nontrivial"] = len({lang.to_source(c["ast"])[0] for c in cases})
    v.cov["traces_validated_against_impl"] = 2 * len(cases)
    v.cov["rule"] = ("class programs (C03 family) and class-churn programs (function-local classes with different layouts "
                     "created and dropped, visited by shared sites); each run cached / forced-miss / cached under a collection "
                     "every 3rd allocation (full sweeps); non-trivial = has at least one class; distinct by source")
    v.notes["cache_events"] = len(traces)
    v.notes["probes"] = probes
    v.notes["probe_hits"] = hits
    v.assumptions = ["class identity in events is the hook's registry id (fresh at every op_class, so an address reused by a new "
                     "class is a new class to the contract)", "the forced-miss switch is the hook in cache.rs get_*_cache"]
    for c in (cases[:2] + cases[-2:] if cases else []):
        v.cov["samples"].append({"id": c["id"], "source": lang.to_source(c["ast"])[0][:1200], "predicted_out": preds[c["id"]]["out"][:12]})
    return v.finish()
