"""AST construction, flattening to the node table Lang.tla reads, and printing to Laythe source with a
node -> line map.  The AST is plain dicts: {k, s, s2, n, kids, cp, fields}."""
import json


def nd(k, s="", s2="", n=0, kids=None, cp=None, fields=None):
    return {"k": k, "s": s, "s2": s2, "n": n, "kids": list(kids or []), "cp": list(cp or []), "fields": list(fields or [])}


# ---- constructors ------------------------------------------------------------------------------
def Nil(): return nd("nil")
def Bool(b): return nd("true" if b else "false")
def Num(n): return nd("num", n=n)
def Str(text): return nd("str", s=text, cp=[ord(c) for c in text])
def Var(name): return nd("var", s=name)
def Self(): return nd("self")
def Un(op, e): return nd("un", s=op, kids=[e])
def Bin(op, a, b): return nd("bin", s=op, kids=[a, b])
def And(a, b): return nd("and", kids=[a, b])
def Or(a, b): return nd("or", kids=[a, b])
def Tern(c, a, b): return nd("tern", kids=[c, a, b])
def Assign(name, e): return nd("assign", s=name, kids=[e])
def OpAssign(name, op, e): return nd("opassign", s=name, s2=op, kids=[e])
def Call(f, args): return nd("call", kids=[f] + list(args))
def Invoke(obj, name, args): return nd("invoke", s=name, kids=[obj] + list(args))
def SuperInvoke(name, args): return nd("superinvoke", s=name, kids=list(args))
def SuperGet(name): return nd("superget", s=name)          # super.name as a value (a method bound to self)
def Prop(obj, name): return nd("prop", s=name, kids=[obj])
def PropSet(obj, name, v): return nd("propset", s=name, kids=[obj, v])
def PropOp(obj, name, op, v): return nd("propop", s=name, s2=op, kids=[obj, v])
def Index(a, i): return nd("index", kids=[a, i])
def IndexSet(a, i, v): return nd("indexset", kids=[a, i, v])
def IndexOp(a, i, op, v): return nd("indexop", s2=op, kids=[a, i, v])
def List(items): return nd("list", kids=items)
def Tuple(items): return nd("tuple", kids=items)
def MapLit(pairs): return nd("map", kids=[x for kv in pairs for x in kv])
def Interp(parts): return nd("interp", kids=parts)          # parts: expressions; string parts are Str nodes
def Param(name): return nd("param", s=name)
def Lambda(params, body): return nd("lambda", s="lambda", s2="fun", n=len(params), kids=[Param(p) for p in params] + [body])
def Fn(name, params, body, kind="fun"): return nd("fn", s=name, s2=kind, n=len(params), kids=[Param(p) for p in params] + [body])
def Block(stmts): return nd("block", kids=stmts)
def Module(stmts): return nd("module", kids=stmts)
def Session(stmts): return nd("session", kids=stmts)
def ExprSt(e): return nd("exprst", kids=[e])
def Let(name, e):
    if e["k"] == "lambda":
        e["s"] = name           # a lambda bound by let is named after the variable (tracebacks)
    return nd("let", s=name, kids=[e])
def If(c, t, e=None): return nd("if", kids=[c, t] + ([e] if e is not None else []))
def While(c, body): return nd("while", kids=[c, body])
def For(item, it, body): return nd("for", s=item, kids=[it, body])
def Break(): return nd("break")
def Continue(): return nd("continue")
def Return(e=None): return nd("return1", kids=[e]) if e is not None else nd("return0")
def Raise(e): return nd("raise", kids=[e])
def Catch(var, cls, block): return nd("catch", s=var, s2=cls or "", kids=[block])
def Try(block, catches): return nd("try", kids=[block] + catches)
def Print(*args): return ExprSt(Call(Var("print"), list(args)))
def Export(decl): return nd("export", kids=[decl])
def ImportWhole(mod, alias=None): return nd("import", s=mod, s2="as" if alias else "whole", fields=[alias or mod])
def ImportSyms(mod, pairs): return nd("import", s=mod, s2="syms", fields=[x for p in pairs for x in p])


def self_fields(init_fn):
    """names assigned on self directly in the initialiser (not inside nested functions), in source order"""
    out = []

    def walk(n):
        if n["k"] in ("lambda", "fn", "class"):
            return
        if n["k"] in ("propset", "propop") and n["kids"][0]["k"] == "self":
            # the compiler records the field when it compiles the assignment target, i.e. before the value
            if n["s"] not in out:
                out.append(n["s"])
        for c in n["kids"]:
            walk(c)

    walk(init_fn["kids"][-1])
    return out


def Class(name, super_expr, members):
    init = next((m for m in members if m["s2"] == "init"), None)
    fields = self_fields(init) if init else []
    return nd("class", s=name, n=1 if super_expr is not None else 0,
              kids=([super_expr] if super_expr is not None else []) + members, fields=fields)


# ---- flatten -------------------------------------------------------------------------------------
def name_lambdas(n, let_name=None):
    """the parser names a lambda after the innermost `let` whose initialiser it is written in (however deep inside
    that initialiser), and "lambda" otherwise; this is the name tracebacks show"""
    if n["k"] == "lambda":
        n["s"] = let_name or "lambda"
    if n["k"] == "let":
        for c in n["kids"]:
            name_lambdas(c, n["s"])
        return
    for c in n["kids"]:
        name_lambdas(c, let_name)


def flatten(root):
    """returns (nodes, root id); ids are 1-based; also stores the id into each dict under '_id'"""
    name_lambdas(root)
    nodes = []

    def go(n):
        kids = [go(c) for c in n["kids"]]
        nodes.append({"k": n["k"], "s": n["s"], "s2": n["s2"], "n": n["n"], "kids": kids, "cp": n["cp"], "fields": n["fields"]})
        n["_id"] = len(nodes)
        return len(nodes)

    r = go(root)
    return nodes, r


# ---- printing --------------------------------------------------------------------------------------
PREC = {"or": 1, "and": 2, "==": 3, "!=": 3, "<": 4, "<=": 4, ">": 4, ">=": 4, "+": 5, "-": 5, "*": 6, "/": 6}


def esc(text):
    return text.replace("\\", "\\\\").replace('"', '\\"').replace("\n", "\\n").replace("$", "\\$") if False else \
        text.replace("\\", "\\\\").replace('"', '\\"').replace("\n", "\\n")


# type expressions for the "typed" layout: annotations are erased, the program must behave exactly as without them
TYPES = ["any", "number", "string", "bool", "nil", "number | nil", "string | number | nil", "number[]", "any[][]", "(number) -> number",
         "(any, any) -> any", "List<number>", "Map<string, number>", "Error", "number & any"]
# between the bars of a lambda a `|` would end the parameter list, and a function type is not accepted there
SIMPLE_TYPES = ["any", "number", "string", "bool", "nil", "number[]", "Error", "any[][]"]      # no generics there either


def type_of(name, salt=0, simple=False):
    pool = SIMPLE_TYPES if simple else TYPES
    return pool[(sum(ord(c) for c in name) * 31 + salt) % len(pool)]


class Printer:
    def __init__(self, layout="canon"):
        self.layout = layout      # canon (parens around every compound operand) | min (precedence based) | pad | typed
        self.lines = []
        self.cur = ""
        self.ind = 0
        self.line_of = {}         # node _id -> 1-based line where the node's text starts

    def emit(self, text):
        self.cur += text

    def nl(self):
        self.lines.append(self.cur)
        self.cur = ""

    def start(self):
        if self.cur == "":
            self.cur = "  " * self.ind

    def mark(self, n):
        if "_id" in n:
            self.line_of.setdefault(n["_id"], len(self.lines) + 1)

    # expressions return text; statements emit lines
    def atom_like(self, n):
        return n["k"] in ("nil", "true", "false", "num", "str", "var", "self", "call", "invoke", "superinvoke", "superget", "prop",
                          "index", "list", "interp", "tuple", "map") and not (n["k"] == "num" and n["n"] < 0)

    def sub(self, n, parent_prec=0, right=False):
        t = self.expr(n)
        if self.atom_like(n):
            return t
        if self.layout == "min":
            k = n["k"]
            p = PREC.get(n["s"] if k == "bin" else k, None)
            if k == "un":
                return t
            if p is not None and (p > parent_prec or (p == parent_prec and not right)):
                return t
        return "(" + t + ")"

    def args(self, kids):
        return ", ".join(self.expr(a) for a in kids)

    def expr(self, n):
        self.mark(n)
        k = n["k"]
        if k == "nil": return "nil"
        if k == "true": return "true"
        if k == "false": return "false"
        if k == "num": return str(n["n"])
        if k == "str":
            if self.layout == "alt" and "'" not in n["s"] and "$" not in n["s"] and "\\" not in n["s"] and "\n" not in n["s"]:
                return "'" + n["s"] + "'"
            return '"' + esc(n["s"]) + '"'
        if k == "var": return n["s"]
        if k == "self": return "self"
        if k == "un": return n["s"] + self.sub(n["kids"][0], 7)
        if k == "bin":
            p = PREC[n["s"]]
            return f"{self.sub(n['kids'][0], p)} {n['s']} {self.sub(n['kids'][1], p, right=True)}"
        if k == "and": return f"{self.sub(n['kids'][0], 2)} && {self.sub(n['kids'][1], 2, right=True)}"
        if k == "or": return f"{self.sub(n['kids'][0], 1)} || {self.sub(n['kids'][1], 1, right=True)}"
        if k == "tern":
            return f"{self.sub(n['kids'][0])} ? {self.sub(n['kids'][1])} : {self.sub(n['kids'][2])}"
        if k == "assign": return f"{n['s']} = {self.expr(n['kids'][0])}"
        if k == "opassign": return f"{n['s']} {n['s2']} {self.expr(n['kids'][0])}"
        if k in ("call", "invoke", "superinvoke"):
            if k == "call": t = f"{self.callee(n['kids'][0])}({self.args(n['kids'][1:])})"
            elif k == "invoke": t = f"{self.callee(n['kids'][0])}.{n['s']}({self.args(n['kids'][1:])})"
            else: t = f"super.{n['s']}({self.args(n['kids'])})"
            # the compiler attributes a call to the line of its closing parenthesis: an argument that is a lambda
            # with a block body puts it below the line the call starts on
            if "\n" in t and "_id" in n:
                self.line_of[n["_id"]] = self.line_of[n["_id"]] + t.count("\n")
            return t
        if self.layout == "alt" and k in ("prop", "propset", "propop") and n["kids"][0]["k"] == "self":
            # @x is the short form of self.x
            self.mark(n["kids"][0])
            if k == "prop": return f"@{n['s']}"
            if k == "propset": return f"@{n['s']} = {self.expr(n['kids'][1])}"
            return f"@{n['s']} {n['s2']} {self.expr(n['kids'][1])}"
        if k == "superget": return f"super.{n['s']}"
        if k == "prop": return f"{self.callee(n['kids'][0])}.{n['s']}"
        if k == "propset": return f"{self.callee(n['kids'][0])}.{n['s']} = {self.expr(n['kids'][1])}"
        if k == "propop": return f"{self.callee(n['kids'][0])}.{n['s']} {n['s2']} {self.expr(n['kids'][1])}"
        if k == "index": return f"{self.callee(n['kids'][0])}[{self.expr(n['kids'][1])}]"
        if k == "indexset": return f"{self.callee(n['kids'][0])}[{self.expr(n['kids'][1])}] = {self.expr(n['kids'][2])}"
        if k == "indexop": return f"{self.callee(n['kids'][0])}[{self.expr(n['kids'][1])}] {n['s2']} {self.expr(n['kids'][2])}"
        if k == "list": return "[" + self.args(n["kids"]) + "]"
        if k == "tuple": return "(" + self.args(n["kids"]) + ("," if len(n["kids"]) == 1 else "") + ")"
        if k == "map":
            kids = n["kids"]
            return "{" + ", ".join(f"{self.expr(kids[i])}: {self.expr(kids[i + 1])}" for i in range(0, len(kids), 2)) + "}"
        if k == "interp":
            out = '"'
            for part in n["kids"]:
                if part["k"] == "str":
                    self.mark(part)
                    out += esc(part["s"])
                else:
                    out += "${" + self.expr(part) + "}"
            return out + '"'
        if k == "lambda":
            # no annotations inside the bars of a lambda: the parser reads the closing `|` after a type as a union
            params = ", ".join(p["s"] for p in n["kids"][:-1])
            for p in n["kids"][:-1]:
                self.mark(p)
            body = n["kids"][-1]
            if body["k"] == "block":
                return f"|{params}| " + self.inline_block(body)
            return f"|{params}| {self.expr(body)}"
        raise ValueError("expr kind " + k)

    def callee(self, n):
        t = self.expr(n)
        return t if self.atom_like(n) else "(" + t + ")"

    def inline_block(self, b):
        # a block printed inside an expression: statements on their own lines
        self.mark(b)
        saved_cur = self.cur
        # flush what we have so far is impossible mid-expression; render the block to text with embedded newlines
        sub = Printer(self.layout)
        sub.ind = self.ind + 1
        sub.lines = []
        sub.line_of = {}
        for st in b["kids"]:
            sub.stmt(st)
        text = "{\n" + "\n".join(sub.lines) + ("\n" if sub.lines else "") + "  " * self.ind + "}"
        self._pending = getattr(self, "_pending", []) + [(sub.line_of, text.count("\n"))]
        self.cur = saved_cur
        return ("\x00%d\x00" % (len(self._pending) - 1)) + text

    def flush_line(self, text):
        """emit text that may contain inline blocks (with embedded newlines), fixing up their line maps"""
        self.start()
        out = ""
        i = 0
        while i < len(text):
            if text[i] == "\x00":
                j = text.index("\x00", i + 1)
                idx = int(text[i + 1:j])
                line_of, _ = self._pending[idx]
                base = len(self.lines) + (self.cur + out).count("\n") + 1
                for nid, ln in line_of.items():
                    self.line_of.setdefault(nid, base + ln)
                i = j + 1
                continue
            out += text[i]
            i += 1
        full = self.cur + out
        parts = full.split("\n")
        for p in parts[:-1]:
            self.lines.append(p)
        self.cur = parts[-1]

    def line(self, text):
        self.flush_line(text)
        self.nl()

    def block(self, b, header, implicit=False):
        self.mark(b)
        self.flush_line(header + " {")
        self.nl()
        self.ind += 1
        for j, st in enumerate(b["kids"]):
            if implicit and j == len(b["kids"]) - 1 and st["k"] == "return1":
                # the last expression of a function body, written without `return` and `;`, is its result
                self.start()
                self.mark(st)
                self.line(self.expr(st["kids"][0]))
                continue
            self.stmt(st)
        self.ind -= 1
        self.start()
        self.emit("}")

    def stmt(self, n):
        if self.layout == "pad" and self.cur == "" and n["k"] != "module":
            h = (n.get("_id", 0) * 2654435761) % 7
            for _ in range(h % 3):
                self.lines.append("")
            if h == 5:
                self.lines.append("  " * self.ind + "// padding")
        self.start()
        self.mark(n)
        k = n["k"]
        if k == "exprst": self.line(self.expr(n["kids"][0]) + ";")
        elif k == "let":
            ann = f": {type_of(n['s'])}" if self.layout == "typed" and (n.get("_id", 0) % 3) else ""
            self.line(f"let {n['s']}{ann} = {self.expr(n['kids'][0])};")
        elif k == "return1": self.line(f"return {self.expr(n['kids'][0])};")
        elif k == "return0": self.line("return;")
        elif k == "raise": self.line(f"raise {self.expr(n['kids'][0])};")
        elif k == "break": self.line("break;")
        elif k == "continue": self.line("continue;")
        elif k == "block":
            self.block(n, "")
            self.nl()
        elif k == "if":
            self.block(n["kids"][1], "if " + self.expr(n["kids"][0]))
            if len(n["kids"]) > 2:
                self.block(n["kids"][2], " else")
            self.nl()
        elif k == "while":
            self.block(n["kids"][1], "while " + self.expr(n["kids"][0]))
            self.nl()
        elif k == "for":
            self.block(n["kids"][1], f"for {n['s']} in " + self.expr(n["kids"][0]))
            self.nl()
        elif k == "fn":
            for p in n["kids"][:-1]:
                self.mark(p)
            typed = self.layout == "typed"
            params = ", ".join(p["s"] + (f": {type_of(p['s'], 1)}" if typed and (p.get("_id", 0) % 4) else "") for p in n["kids"][:-1])
            head = {"fun": "fn ", "method": "", "init": "", "static": "static "}[n["s2"]]
            ret = f" -> {type_of(n['s'], 2)}" if typed and n["s2"] != "init" and (n.get("_id", 0) % 2) else ""
            self.block(n["kids"][-1], f"{head}{n['s']}({params}){ret}", implicit=self.layout == "alt" and n["s2"] != "init")
            self.nl()
        elif k == "class":
            sup = ""
            members = n["kids"]
            if n["n"] == 1:
                sup = " : " + self.expr(n["kids"][0])
                members = n["kids"][1:]
            self.flush_line(f"class {n['s']}{sup} {{")
            self.nl()
            self.ind += 1
            for m in members:
                self.stmt(m)
            self.ind -= 1
            self.line("}")
        elif k == "try":
            self.block(n["kids"][0], "try")
            for c in n["kids"][1:]:
                self.mark(c)
                head = f" catch {c['s']}" + (f": {c['s2']}" if c["s2"] else "")
                self.block(c["kids"][0], head)
            self.nl()
        elif k == "export":
            self.emit("export ")
            self.stmt(n["kids"][0])
        elif k == "import":
            if n["s2"] == "whole":
                self.line(f"import self.{n['s']};")
            elif n["s2"] == "as":
                self.line(f"import self.{n['s']} as {n['fields'][0]};")
            else:
                f = n["fields"]
                items = ", ".join(f[i] if f[i] == f[i + 1] else f"{f[i]} as {f[i + 1]}" for i in range(0, len(f), 2))
                self.line(f"import self.{n['s']}:{{{items}}};")
        elif k in ("module", "session"):
            for st in n["kids"]:
                self.stmt(st)
        else:
            raise ValueError("stmt kind " + k)


def to_source(root, layout="canon"):
    p = Printer(layout)
    p.stmt(root)
    if p.cur:
        p.nl()
    return "\n".join(p.lines) + "\n", p.line_of


def multi_case_record(cid, main, modules):
    """main: Module AST; modules: {name: Module AST}; one node table, one root per file"""
    nodes = []

    def go(n):
        kids = [go(c) for c in n["kids"]]
        nodes.append({"k": n["k"], "s": n["s"], "s2": n["s2"], "n": n["n"], "kids": kids, "cp": n["cp"], "fields": n["fields"]})
        n["_id"] = len(nodes)
        return len(nodes)

    r = go(main)
    mods = {name: (0 if isinstance(ast, str) else go(ast)) for name, ast in modules.items()}
    rec = case_record(cid, main, _nodes=(nodes, r))
    rec["mods"] = mods
    return rec


def case_record(cid, root, _nodes=None):
    nodes, r = _nodes if _nodes else flatten(root)
    names = {"script": [ord(c) for c in "script"], "lambda": [ord(c) for c in "lambda"], "[]": [91, 93], "[]=": [91, 93, 61]}
    for nat in ("each", "reduce", "all", "any", "sort", "skip"):      # natives that appear as frames of their own
        names[nat] = [ord(c) for c in nat]
    for cname in ("Error", "RuntimeError", "TypeError", "IndexError", "PropertyError", "ValueError", "KeyError",
                  "ImportError", "ExportError", "SyntaxError", "FormatError", "ChannelError", "MethodNotFoundError"):
        names[cname] = [ord(c) for c in cname]
    for n in nodes:
        if n["k"] in ("fn", "lambda", "class") and n["s"]:
            names[n["s"]] = [ord(c) for c in n["s"]]
    return {"id": cid, "nodes": nodes, "root": r, "names": names, "mods": {}}


def decode_out(out):
    return ["".join(chr(c) for c in line) for line in out]
