"""C05 (collection is invisible), C20 (reclamation and accounting), C09 (string identity).

C05: programs whose behaviour TLC predicted (Lang.tla families; fiber/channel programs from Sched.tla behaviours, in
     a variant where every value crossing a channel, every fiber body and every captured variable is a heap object
     reachable only through buffers / parked fibers / frame captures) are run under collection schedules (every
     allocation, every k-th, with and without forced full sweeps): output and status must equal the prediction,
     which does not mention the schedule.  The allocator events of a subset are validated against Gc.tla.
C20: allocator events recorded from before the VM exists are validated by TLC against Gc.tla (exact accounting after
     every cycle, threshold, frees, intern table); the harness's ledger allocator checks every release against the
     layout of its allocation; loop programs must hold the same number of bytes after k and after 2k iterations.
C09: string programs (equal contents built by different routes, compared, used as field names and list members, with
     equal strings created, dropped and collected in between) run under the schedules against Lang.tla, and their
     intern events are validated against Gc.tla S4."""
import json, os, random, collections, re
import vlib, lang, langrun, gen, c_lang, schedlib, c_sched
from lang import *

SCHEDULES_QUICK = [("every1-full", {"every": 1, "force_full": True}), ("every2", {"every": 2}), ("every7-full", {"every": 7, "force_full": True}),
                   ("lowthreshold", {"next_gc": 2048})]
# C05 also runs the second value representation (--features nan_boxing): a "build" key selects it
# ... and laythe_core's own gc_stress feature ("gs"): a full collection at every allocation and at every reserve that does
# not grow, i.e. at every call's stack check whatever the fill level of the stack
SCHEDULES_C05_EXTRA_QUICK = [("nan_boxing:every1-full", {"every": 1, "force_full": True, "build": "nb"}), ("gc_stress", {"build": "gs"})]
SCHEDULES_C05_EXTRA_THOROUGH = [("nan_boxing:every1-full", {"every": 1, "force_full": True, "build": "nb"}), ("nan_boxing:every2", {"every": 2, "build": "nb"}),
                                ("nan_boxing:every7-full", {"every": 7, "force_full": True, "build": "nb"}), ("nan_boxing:lowthreshold", {"next_gc": 2048, "build": "nb"}),
                                ("gc_stress", {"build": "gs"})]
SCHEDULES_THOROUGH = SCHEDULES_QUICK + [("every1", {"every": 1}), ("every3-full", {"every": 3, "force_full": True}), ("every5", {"every": 5}),
                                        ("every13", {"every": 13})]


def gc_trace(r, rid, early):
    """allocator events -> uniform records for Trace_Gc"""
    out = [{"ev": "reset", "a": -1, "sz": 0, "heap": "", "hit": early, "s": "", "n": 0, "full": False, "freed": [], "evicted": [],
            "bytes": 0, "next": 0, "run": rid}]
    allocated = set()
    remap = {}
    for e in r.get("events", []):
        if e["ev"] == "alloc":
            remap[e["a"]] = len(remap)
    def rid_(a):
        return remap.get(a, -1 - a)     # blocks from before the recording get negative ids (never "held")
    for e in r.get("events", []):
        ev = e["ev"]
        rec = {"ev": ev, "a": rid_(e.get("a", -1)) if ev in ("alloc", "intern") else -1, "sz": e.get("sz", 0), "heap": e.get("heap", ""), "hit": bool(e.get("hit", False)),
               "s": e.get("s", ""), "n": e.get("n", 0), "full": bool(e.get("full", False)), "freed": [rid_(a) for a in e.get("freed", [])],
               "evicted": [rid_(a) for a in e.get("evicted", [])], "bytes": e.get("bytes", 0), "next": e.get("next", 0), "run": rid}
        if ev == "gc" and not early:
            # blocks allocated before recording started have no allocation record: their release cannot be judged
            rec["freed"] = [a for a in rec["freed"] if a >= 0]
        if ev in ("alloc", "gc", "intern"):
            out.append(rec)
    return out


def validate_gc(traces, v):
    os.makedirs(vlib.WORK, exist_ok=True)
    path = os.path.join(vlib.WORK, f"trace_gc_{os.getpid()}.ndjson")
    with open(path, "w") as f:
        for e in traces:
            f.write(json.dumps(e) + "\n")
    r = vlib.tlc("Trace_Gc", "Trace_Gc", env={"TRACE": path}, workers=1, deque=True, timeout=3300, heap="24g")
    vlib.drop_trace(path, "gc")
    if "NOT_CONSUMED" in r["out"] or r["distinct"] == 0 or any(e.startswith("Error:") for e in r["errors"]):
        raise vlib.ToolError("allocator trace validation did not complete:\n" + r["out"][-2500:])
    v.cov["states"] += r["distinct"]
    v.cov["transitions"] += r["states"]
    return vlib.tlc_json(r["out"], "REJECT")


def lang_corpus(rnd, n):
    out = []
    for i in range(n):
        c = i % 11
        if c >= 9:
            c = 5          # natives and iterators are where temporaries live: three slots out of eleven
        if c == 0:
            ast, _ = gen.program_c01(rnd)
        elif c == 1:
            ast = gen.program_c02(rnd)
        elif c == 2:
            ast = gen.program_c03(rnd)
        elif c == 3:
            ast = gen.program_c04(rnd)
        elif c == 4:
            ast = gen.program_c10(rnd)       # lists growing (forwarding) through aliases while collections run
        elif c == 5:
            ast = gen.program_c11(rnd)       # natives with temporaries and callbacks, errors crossing natives
        elif c == 6:
            ast = gen.program_c18(rnd)       # errors in flight, back traces
        elif c == 7:
            ast = gen.program_c17(rnd)       # module loading: sources, module objects and import fibers
        else:
            ast = string_program(rnd)
        out.append((f"p{i}", ast))
    return out


def string_program(rnd):
    """C09: the same content built by different routes, compared and used, with churn in between"""
    base = rnd.choice(["ab", "key", "x1", "aé", "field"])
    a, b = base[:len(base) // 2], base[len(base) // 2:]
    routes = [Str(base), Bin("+", Str(a), Str(b)), Interp([Str(a), Str(b), Str("")]), Interp([Str(""), Str(base), Str("")]),
              Invoke(Str(base), "str", []), Bin("+", Bin("+", Str(""), Str(a)), Str(b))]
    if base == "x1":
        routes += [Bin("+", Str("x"), Invoke(Num(1), "str", [])), Interp([Str("x"), Num(1), Str("")])]
    # slicing, splitting, iteration, case mapping and trimming (C09 names these routes)
    routes += [Invoke(Str("_" + base + "_"), "slice", [Num(1), Num(-1)]), Invoke(Str(base + "#"), "slice", [Num(0), Num(len(base))]),
               Index(Invoke(Invoke(Str("q," + base + ",r"), "split", [Str(",")]), "list", []), Num(1)),
               Index(Invoke(Invoke(Str(base + "|"), "split", [Str("|")]), "list", []), Num(0)),
               Invoke(Invoke(Str(base), "iter", []), "reduce", [Str(""), Lambda(["acc", "ch"], Bin("+", Var("acc"), Var("ch")))]),
               Invoke(Str("  " + base + " "), "trim", []), Invoke(Str(base + " "), "trimEnd", [])]
    if base.isascii() and base.islower():
        routes += [Invoke(Str(base.upper()), "downCase", []), Invoke(Invoke(Str(base), "upCase", []), "downCase", [])]
    mod = []
    names = []
    for i in range(rnd.randint(2, 4)):
        nme = f"s{i}"
        mod.append(Let(nme, rnd.choice(routes)))
        names.append(nme)
        # an equal string created, dropped (and possibly collected) in between
        if rnd.random() < 0.6:
            mod.append(Fn(f"churn{i}", [], Block([Let("t", rnd.choice(routes)), Let("junk", List([Var("t"), Str("zz"), Bin("+", Str("q"), Str("r"))])), Return(Invoke(Var("t"), "len", []))])))
            mod.append(Print(Call(Var(f"churn{i}"), [])))
    for i, x in enumerate(names):
        for y in names[i + 1:]:
            mod.append(Print(Bin("==", Var(x), Var(y)), Bin("!=", Var(x), Var(y)), Bin("==", Var(x), Str(base + "_")), Bin("<=", Var(x), Var(y))))
    # as a field name and a method name: property access by a name that was first seen inside the class
    mod.append(Class("K", None, [Fn("init", [], Block([ExprSt(PropSet(Self(), "key", Num(1)))]), "init"), Fn("field", [], Block([Return(Num(2))]), "method")]))
    mod.append(Let("k", Call(Var("K"), [])))
    mod.append(Print(Prop(Var("k"), "key"), Invoke(Var("k"), "field", [])))
    # as map keys: an entry stored under one string is found by every equal one
    mod.append(Let("tbl", MapLit([])))
    mod.append(ExprSt(IndexSet(Var("tbl"), Var(names[0]), Num(1))))
    for x in names[1:]:
        mod.append(Print(Invoke(Var("tbl"), "has", [Var(x)]), Invoke(Var("tbl"), "get", [Var(x)]), Invoke(Var("tbl"), "len", [])))
        mod.append(ExprSt(IndexSet(Var("tbl"), Var(x), Num(2))))
    mod.append(Print(Invoke(Var("tbl"), "len", []), Invoke(Var("tbl"), "has", [Str(base + "_")])))
    mod.append(Let("all", List([Var(x) for x in names])))
    mod.append(Print(Var("all"), Invoke(Var("all"), "len", [])))
    return Module(mod)


LONG_SHAPES = [(100, 13, 130, 10, "0123456789"), (104, 10, 130, 8, "abcdefghijklmnopqrstuvwxyz"), (100, 26, 130, 20, "0123456789"),
               (100, 39, 130, 30, "01234é6789"), (100, 52, 130, 40, "0123456789"), (100, 91, 130, 70, "0123456789"),
               (64, 8, 128, 4, "abcdefgh"), (64, 16, 128, 8, "abcdefgh"), (64, 17, 136, 8, "abcdefgé"), (5, 3, 3, 5, "z"),
               (64, 4, 128, 2, "abcdefgh"), (96, 168, 256, 63, "0123456789abcdef0123456789ABCDEF"), (128, 513, 513, 128, "q")]


def long_string_program(rnd):
    """C09: equal contents of 15 .. 65 000 characters built by routes that never share a buffer (different chunkings in different
    loops, a slice of something longer), compared and used as keys: the length of a string is no reason to treat it differently"""
    c1, n1, c2, n2, period = rnd.choice(LONG_SHAPES)
    total = c1 * n1
    assert total == c2 * n2 and c1 % len(period) == 0 and c2 % len(period) == 0
    ch1, ch2 = period * (c1 // len(period)), period * (c2 // len(period))
    mod = [Let("a", Str("")), For("i", Invoke(Num(n1), "times", []), Block([ExprSt(Assign("a", Bin("+", Var("a"), Str(ch1))))])),
           Let("b", Str("")), Let("j", Num(0)),
           While(Bin("<", Var("j"), Num(n2)), Block([ExprSt(Assign("b", Bin("+", Var("b"), Str(ch2)))), ExprSt(Assign("j", Bin("+", Var("j"), Num(1))))])),
           Let("c", Invoke(Bin("+", Var("a"), Str("#tail")), "slice", [Num(0), Num(total)])),
           Let("d", Bin("+", Var("a"), Str("#")))]
    if rnd.random() < 0.5:
        mod.append(Fn("churn", [], Block([Let("t", Bin("+", Var("b"), Str(""))), Let("junk", List([Var("t"), Str("zz")])), Return(Invoke(Var("t"), "len", []))])))
        mod.append(Print(Call(Var("churn"), [])))
    mod.append(Print(Invoke(Var("a"), "len", []), Invoke(Var("b"), "len", []), Invoke(Var("c"), "len", []), Bin("==", Var("a"), Var("b")), Bin("!=", Var("a"), Var("b")),
                     Bin("==", Var("b"), Var("c")), Bin("==", Var("a"), Var("d")), Bin("==", Bin("+", Var("b"), Str("#")), Var("d"))))
    mod.append(Let("tbl", MapLit([])))
    mod.append(ExprSt(IndexSet(Var("tbl"), Var("a"), Num(1))))
    mod.append(Print(Invoke(Var("tbl"), "has", [Var("b")]), Invoke(Var("tbl"), "get", [Var("c")]), Invoke(Var("tbl"), "has", [Var("d")]), Invoke(Var("tbl"), "len", [])))
    mod.append(ExprSt(IndexSet(Var("tbl"), Var("b"), Num(2))))
    mod.append(ExprSt(IndexSet(Var("tbl"), Var("d"), Num(3))))
    mod.append(Print(Invoke(Var("tbl"), "len", []), Index(Var("tbl"), Var("a")), Index(Var("tbl"), Bin("+", Var("c"), Str("#")))))
    return Module(mod)


def late_name_program(rnd):
    """C09: a field / method name first interned while a module is compiled must still find its entry when an equal
    name is interned much later (a module imported after many collections reads the field from outside)."""
    f = rnd.choice(["coord", "total", "nm", "weight"])
    mname = rnd.choice(["area", "describe", "mm"])
    shapes = Module([Export(Class("Point", None, [Fn("init", [], Block([ExprSt(PropSet(Self(), f, Num(7))), ExprSt(PropSet(Self(), "other", Str("o")))]), "init"),
                                                    Fn(mname, [], Block([Return(Bin("+", Prop(Self(), f), Num(1)))]), "method")]))])
    reader = Module([Export(Fn("read", ["p"], Block([Return(Prop(Var("p"), f))]))),
                     Export(Fn("call", ["p"], Block([Return(Invoke(Var("p"), mname, []))]))),
                     Export(Fn("write", ["p", "v"], Block([ExprSt(PropSet(Var("p"), f, Var("v"))), Return(Prop(Var("p"), f))])))])
    main = [ImportSyms("shapes", [("Point", "Point")]), Let("p", Call(Var("Point"), [])), Let("acc", List([]))]
    for i in range(rnd.randint(2, 6)):
        main.append(ExprSt(Invoke(Var("acc"), "push", [Bin("+", Str("churn"), Invoke(Num(i), "str", []))])))
        main.append(Let(f"t{i}", List([Str("a"), Bin("+", Str("b"), Str("c"))])))
    main.append(ImportSyms("reader", [("read", "read"), ("call", "call"), ("write", "write")]))
    main.append(Print(Call(Var("read"), [Var("p")]), Call(Var("call"), [Var("p")]), Call(Var("write"), [Var("p"), Num(9)])))
    main.append(Print(Invoke(Var("acc"), "len", [])))
    # a string that comes from another module equals the one built here, also as a map key
    tag = rnd.choice(["tag", "aé", "k1"])
    reader["kids"].append(Export(Let("tagged", Bin("+", Str(tag[:1]), Str(tag[1:])))))
    reader["kids"].append(Export(Let("table", MapLit([(Str(tag), Num(5))]))))
    main.append(ImportSyms("reader", [("tagged", "tagged"), ("table", "table")]))
    main.append(Let("mine", Interp([Str(tag[:1]), Str(tag[1:]), Str("")])))
    main.append(Print(Bin("==", Var("mine"), Var("tagged")), Invoke(Var("table"), "get", [Var("mine")]), Invoke(Var("table"), "has", [Var("tagged")]),
                      Index(Var("table"), Invoke(Str(" " + tag), "trim", []))))
    return {"main": Module(main), "mods": {"shapes": shapes, "reader": reader}}


def fiber_cases(tier, v):
    behs = c_sched.simulate("quick" if tier == "quick" else "thorough", v)
    rnd = random.Random(vlib.seed())
    rnd.shuffle(behs)
    behs = behs[:150 if tier == "quick" else 4000]
    caps, syncs = c_sched.CAPS["sim"]
    out = []
    for i, b in enumerate(behs):
        targets = schedlib.launch_targets_from(b["prog"], b["evs"])
        src = schedlib.program_source_heap(b["prog"], caps, syncs, targets)
        out.append((f"fib{i}", src, b))
    return out


def run(pid, tier, replay=None):
    v = vlib.Verdict(pid, tier)
    rnd = random.Random(vlib.seed() * 101 + int(pid[1:]))
    binary = vlib.build_harness()
    scheds = list(SCHEDULES_QUICK if tier == "quick" else SCHEDULES_THOROUGH)
    binary_nb = binary_gs = None
    if pid == "C05":
        binary_gs = vlib.build_harness(gc_stress=True)
        scheds += SCHEDULES_C05_EXTRA_QUICK if tier == "quick" else SCHEDULES_C05_EXTRA_THOROUGH
        binary_nb = vlib.build_harness(nan_boxing=True)
    n = {"C05": 400, "C09": 120, "C20": 100}[pid] if tier == "quick" else {"C05": 5000, "C09": 4000, "C20": 1500}[pid]
    if pid == "C09":
        progs = [(f"str{i}", string_program(rnd)) for i in range(n)] + [(f"late{i}", late_name_program(rnd)) for i in range(n // 4)] + \
                [(f"long{i}", long_string_program(rnd)) for i in range(n // 5)]
    else:
        progs = lang_corpus(rnd, n)
    cases = []
    for cid, ast in progs:
        if "mods" in ast and "k" not in ast:
            rec = lang.multi_case_record(cid, ast["main"], ast["mods"])
            rec["files"] = {"main.lay": lang.to_source(ast["main"])[0]}
            for name, a in ast["mods"].items():
                rec["files"][name + ".lay"] = a if isinstance(a, str) else lang.to_source(a)[0]
            rec["src"] = rec["files"]["main.lay"]
        else:
            rec = lang.case_record(cid, ast)
            rec["src"], rec["lines"] = lang.to_source(ast)
            rec["files"] = {"main.lay": rec["src"]}
        rec["ast"] = ast
        cases.append(rec)
    preds = langrun.predict(cases, v)
    judged = 0
    traces = []
    early = pid == "C20"
    mismatch_layout = 0
    for sname, sched in scheds:
        sched = dict(sched)
        use_binary = {"nb": binary_nb, "gs": binary_gs, None: binary}[sched.pop("build", None)]
        vmcases = []
        for c in cases:
            d = {"id": c["id"], "files": c["files"], "gc": sched, "max_events": 400000}
            if pid in ("C20", "C09") or (pid == "C05" and sname == scheds[0][0]):
                d["classes"] = ["gc", "alloc"]
                d["early"] = early
            if pid == "C20":
                d["post_collect"] = True
            vmcases.append(d)
        res = vlib.run_batch(use_binary, vmcases, per_case_timeout=60)
        for c in cases:
            p = preds[c["id"]]
            r = res[c["id"]]
            if p["st"].startswith("skip") or p["st"].startswith("model-error"):
                continue
            judged += 1
            p2 = dict(p)
            p2["out"] = langrun.resolve_backtraces(p["out"], c.get("lines", {}))      # printed back traces name lines
            diff = langrun.compare(p2, r)
            if diff:
                v.violation(f"{c['id']} under schedule {sname}: {diff}"[:500],
                            {"id": c["id"], "schedule": sched, "source": c["src"], "predicted": {"out": p["out"], "st": p["st"]},
                             "observed": {"stdout": r.get("stdout", "")[:2000], "stderr": r.get("stderr", "")[-800:], "status": r["status"], "panic": r.get("panic", "")}})
            if r.get("events") and r.get("dropped", 0) == 0:
                traces += gc_trace(r, f"{c['id']}|{sname}", early)
            if pid == "C20" and r.get("layout_mismatches", 0) > 0:
                mismatch_layout += 1
                v.violation(f"{c['id']} under {sname}: {r['layout_mismatches']} blocks released with a layout different from their allocation; "
                            f"first: allocated {r['first_mismatch'][0]} bytes, released as {r['first_mismatch'][1]}",
                            {"id": c["id"], "schedule": sched, "source": c["src"]})
    # fiber / channel programs with heap values (C05 only)
    if pid == "C05":
        for sname, sched in scheds:
            fcs = fiber_cases(tier, v) if sname == scheds[0][0] else fcs
            sched = dict(sched)
            use_binary = {"nb": binary_nb, "gs": binary_gs, None: binary}[sched.pop("build", None)]
            vmcases = [{"id": cid, "files": {"main.lay": src}, "gc": sched, "classes": ["sched"], "max_events": 20000} for cid, src, b in fcs]
            res = vlib.run_batch(use_binary, vmcases, per_case_timeout=40)
            for cid, src, b in fcs:
                r = res[cid]
                judged += 1
                obs = [schedlib.norm_event(e) for e in r.get("events", [])]
                # the schedule must not change the event stream the as-is model predicted (values rendered as strings)
                for e in obs:
                    if e["ev"] in ("send", "recv") and e["v"]:
                        e["v"] = e["v"].strip("'").lstrip("s")
                d = schedlib.first_diff(b["evs"], obs)
                want = schedlib.heap_stdout(obs)
                got = r.get("stdout", "").splitlines()
                bad = None
                if r["status"] in ("crash", "hang") or (r["status"] == "panic" and not b["end"].startswith("panic:")):
                    bad = f"{r['status']} {r.get('panic', '')}"
                elif d is not None:
                    bad = f"event stream changed under collection: first difference {d}"
                elif want != got:
                    bad = f"printed {got[:8]} but the delivered values say {want[:8]}"
                if bad:
                    v.violation(f"{cid} under schedule {sname}: {bad}"[:500], {"id": cid, "schedule": sched, "source": src, "predicted_events": b["evs"][:60],
                                                                              "stdout": r.get("stdout", "")[:1500]})
    # single-fiber channel scripts that wrap the ring buffer, judged by the contract Fibers.tla
    if pid == "C05":
        wraps = schedlib.wrap_programs(rnd, 60 if tier == "quick" else 1500)
        runs = []
        for sname, sched in scheds[:2]:
            vmcases = [{"id": f"wrap{i}|{sname}", "files": {"main.lay": src}, "gc": sched, "classes": ["sched"], "max_events": 20000} for i, src in enumerate(wraps)]
            res = vlib.run_batch(binary, vmcases, per_case_timeout=40)
            for c in vmcases:
                r = res[c["id"]]
                judged += 1
                obs = [schedlib.norm_event(e) for e in r.get("events", [])]
                runs.append((c["id"], obs))
                # what is printed must be what was sent, in order: "v<k>" or ["v<k>", k]
                got = r.get("stdout", "").splitlines()
                sent = [e["v"] for e in obs if e["ev"] == "send" and e["res"] == "ok"]
                import re as _re
                ks = [int(x) for l in got for x in _re.findall(r"v(\d+)", l)]
                exp = list(range(1, len(ks) + 1))
                if r["status"] not in ("ok",) or ks != exp or any(("v" not in l and "nil" not in l) for l in got):
                    v.violation(f"{c['id']}: buffered values corrupted or lost under collection: printed {got[:10]} status {r['status']} {r.get('panic', '')}"[:500],
                                {"id": c["id"], "schedule": sched, "source": c["files"]["main.lay"], "stdout": r.get("stdout", "")[:1500]})
        rejw = c_sched.validate_traces(runs, v)
        for rid, (cls, at) in rejw.items():
            v.violation(f"{rid}: channel contract refuses observed event #{at}: {cls}", {"id": rid})
    # the repository's own fixture programs (language, std_lib, demo; imports with their directory): the same report plainly,
    # under a collection at every allocation and on the gc_stress build; allocator events of the dense run go to Gc.tla
    if pid == "C05" and not replay:
        import glob as _glob
        fx = [f for f in sorted(_glob.glob("/repo/laythe_vm/fixture/**/*.lay", recursive=True)) if "/benchmark/" not in f and "/criterion/" not in f and "/limit/" not in f]       # (limit: huge sources, quadratic under a dense schedule)
        if tier == "quick":
            fx = random.Random(vlib.seed()).sample(fx, min(250, len(fx)))
        fcases = []
        for i, f in enumerate(fx):
            d = os.path.dirname(f)
            fs = {"/v/" + os.path.relpath(g, d): open(g, errors="replace").read() for g in _glob.glob(d + "/**/*.lay", recursive=True)}
            fcases.append({"id": f"fx{i}", "files": fs, "main": "/v/" + os.path.basename(f)})
        plain = vlib.run_batch(binary, fcases, per_case_timeout=30)
        again = vlib.run_batch(binary, fcases, per_case_timeout=30)
        dense = vlib.run_batch(binary, [dict(c, gc={"every": 1, "force_full": True}, classes=["gc", "alloc"], max_events=200000) for c in fcases], per_case_timeout=120)
        stress = vlib.run_batch(binary_gs, fcases, per_case_timeout=120)
        strip = lambda t: re.sub(r"0x[0-9a-f]+", "0x?", t or "")
        sig = lambda r: (r.get("status"), strip(r.get("stdout")), strip(r.get("stderr")))
        nfx = slow_fx = 0
        for i, f in enumerate(fx):
            a = plain[f"fx{i}"]
            if sig(a) != sig(again[f"fx{i}"]) or a.get("status") in ("timeout", "hang"):
                continue            # reads a clock or a random source (or runs for long): not a function of the program
            nfx += 1
            judged += 1
            for name, r in (("a collection at every allocation", dense[f"fx{i}"]), ("the gc_stress build", stress[f"fx{i}"])):
                if r.get("status") in ("timeout", "hang"):
                    slow_fx += 1        # a full collection per allocation is quadratic: running out of time is not judged
                    continue
                if sig(r) != sig(a):
                    v.violation(f"fixture {os.path.relpath(f, '/repo')}: {name} changes the report: {a.get('status')} {strip(a.get('stdout'))[-100:]!r} / "
                                f"{strip(a.get('stderr'))[-80:]!r} becomes {r.get('status')} {strip(r.get('stdout'))[-100:]!r} / {strip(r.get('stderr'))[-80:]!r} {str(r.get('panic'))[:120]}"[:700],
                                {"id": "fixture:" + os.path.relpath(f, "/repo"), "source": open(f, errors="replace").read(), "schedule": name})
                    break
            r = dense[f"fx{i}"]
            if r.get("events") and r.get("dropped", 0) == 0:
                traces += gc_trace(r, f"fx{i}|every1-full", early)
        v.notes["fixture_programs"] = nfx
        v.notes["fixture_runs_out_of_time_under_dense_schedules"] = slow_fx
    if traces:
        for rej in validate_gc(traces, v):
            cid = rej["run"].split("|")[0]
            src = next((c["src"] for c in cases if c["id"] == cid), "")
            if pid == "C05" and "bytes" in rej["why"]:
                continue        # accounting belongs to C20
            v.violation(f"{rej['run']}: allocator event refused by Gc.tla at record {rej['l']}: {rej['ev']} - {rej['why']} "
                        f"(collection #{rej['n']}, reported {rej['bytes']}, expected {rej['expect']})"[:500],
                        {"id": cid, "source": src, "event": rej})
    # C20: bounded memory - the live size after a full collection does not depend on how long the loop ran
    if pid == "C20":
        loops = []
        for i in range(60 if tier == "quick" else 400):
            k = rnd.randint(5, 40)
            bodies = (['let t = [i, i + 1]; let s = "v" + i.str(); keep = s;', 'let o = K(); o.x = [i]; keep = o;',
                               'let f = || i; keep = f;', 'let t = ("a" + i.str(), i); keep = t[0];', 'keep = "${i}-${keep == nil}";',
                               # the paths on which something could be left behind: errors (caught) from natives, from callbacks and from
                               # the interpreter, fibers that come and go, channels, classes made at run time, growing and shrinking collections
                               'try { [1][9]; } catch e { keep = e.message.len(); }', 'try { assertEq(i, -1); } catch e { keep = e.backTrace.len(); }',
                               'try { [1, 2].iter().map(|x| x.zz).list(); } catch e { keep = 1; }', 'try { nil + i; } catch e { keep = e.cls().name(); }',
                               'try { [2, 1].sort(|a, b| nil); } catch e { keep = 2; }', 'try { raise Error("m", Error("inner" + i.str())); } catch e { keep = e.inner.message.len(); }',
                               'let ch = chan(2); ch <- [i]; keep = (<- ch).len();', 'let ch = chan(1); launch W(ch, i); keep = <- ch;',
                               'let ch = chan(1); launch (|c| { c <- [i, i]; })(ch); keep = (<- ch).len();',
                               'keep = [3, 1, 2, i].sort(|a, b| a - b).len();', 'keep = i.times().map(|x| [x]).filter(|x| x.len() > 0).take(3).list().len();',
                               'let l = []; for j in 9.times() { l.push([j]); } for j in 9.times() { l.pop(); } keep = l.len();',
                               'let m = {}; for j in 9.times() { m[j] = "v" + j.str(); } for j in 9.times() { m.remove(j); } keep = m.len();',
                               # natives that root temporaries and then fail (their callback raises), caught: nothing stays rooted
                               'try { [1, 2].iter().each(|x| x.zz); } catch e { keep = 1; }', 'try { [[i], [i]].iter().reduce(0, |a, x| a.zz); } catch e { keep = 2; }',
                               'try { [[i]].iter().zip([[i]].iter()).each(|p| p.zz); } catch e { keep = 3; }', 'try { [[i], [i, i]].iter().map(|x| x.zz).into(List.collect); } catch e { keep = 4; }',
                               'try { [[i]].iter().filter(|x| x.zz).list(); } catch e { keep = 5; }', 'try { {"a": [i]}.iter().each(|kv| kv.zz); } catch e { keep = 6; }',
                               'keep = mk(i).who();', 'keep = "a,b,c".split(",").map(|x| x + i.str()).list().len();', 'keep = "x${[i]}y${(i, i)}z".len() > 0;'])
            body = bodies[i % len(bodies)]          # every body at least twice in the quick tier
            for mult in (1, 2, 4):
                src = (f"class K {{ init() {{ self.x = nil; }} }}\nfn W(ch, i) {{ ch <- i; }}\n"
                       f"fn mk(i) {{ class Local {{ init() {{ self.i = i; }} who() {{ return self.i; }} }} return Local(); }}\n"
                       f"let keep = nil;\nfor i in {k * mult}.times() {{ {body} }}\nprint(\"done\");\n")
                loops.append({"id": f"loop{i}x{mult}", "files": {"main.lay": src}, "post_collect": True, "gc": {"every": 50}, "_k": i, "_m": mult, "_src": src})
        res = vlib.run_batch(binary, [{k: x[k] for k in ("id", "files", "post_collect", "gc")} for x in loops], per_case_timeout=60)
        by = collections.defaultdict(dict)
        for c in loops:
            r = res[c["id"]]
            judged += 1
            post = json.loads(r["post"]) if isinstance(r.get("post"), str) else (r.get("post") or {})
            by[c["_k"]][c["_m"]] = (post.get("bytes"), c["_src"], r["status"], post.get("temp_roots"))
            if r["status"] != "ok" or not r.get("stdout", "").endswith("done\n"):
                # the loop is a valid program that ends normally: if it does not, nothing can be said about its memory
                v.violation(f"loop program does not end normally: {r['status']} {str(r.get('panic'))[:200]} {r.get('stderr', '')[-200:]!r}",
                            {"source": c["_src"], "status": r["status"], "panic": r.get("panic")})
        for k, d in by.items():
            # the collector's list of temporary roots (what natives pin while they run) is as long after 4k iterations as after k
            troots = {m: d[m][3] for m in d if d[m][3] is not None}
            if len(set(troots.values())) > 1:
                v.violation(f"temporary roots left behind grow with the loop count: {troots}", {"source": d[1][1], "temp_roots": troots})
            sizes = {m: d[m][0] for m in d}
            vals = [x for x in sizes.values() if x is not None]
            # strings built from the loop counter have different lengths; allow the keep value itself to differ by < 64 bytes
            if vals and max(vals) - min(vals) > 64:
                body = d[1][1]
                kf = {f["id"]: f for f in vlib.known_findings().get("findings", [])}.get("KF-C20-used-channels")
                # the listed finding: a loop that creates a channel per iteration (the three bodies below), nothing else
                if kf and any(cls in body for cls in kf.get("classes", [])):
                    v.known_finding("KF-C20-used-channels", f"loop {k}: {sizes}")
                else:
                    v.violation(f"live size after a full collection grows with the loop count: {sizes}", {"source": body, "sizes": sizes})
        v.notes["bounded_memory_programs"] = len(by)
    v.cov["evaluations"] = judged
    v.cov["distinct_nontrivial"] = len({c["src"] for c in cases})
    v.cov["traces_validated_against_impl"] = sum(1 for e in traces if e["ev"] == "reset")
    v.cov["rule"] = ("generated programs (core, closure, class, exception, string families; for C05 also fiber/channel programs with heap values) "
                     "x collection schedules " + ", ".join(s for s, _ in scheds) + "; each run compared with the TLC prediction; non-trivial = every "
                     "program allocates; distinct by source")
    v.notes["allocator_events_validated"] = len(traces)
    v.notes["gc_cycles_validated"] = sum(1 for e in traces if e["ev"] == "gc")
    v.notes["schedules"] = [s for s, _ in scheds]
    v.assumptions = ["an unrooted object that is never touched again is unobservable (and harmless)",
                     "the collection schedule hook triggers collections inside allocate/allocate_obj exactly where the byte threshold would"]
    for c in cases[:2]:
        v.cov["samples"].append({"id": c["id"], "source": c["src"][:1000], "predicted_out": preds[c["id"]]["out"][:10]})
    return v.finish()
