"""C06: emitted bytecode respects the stack contract. TLC (Bytecode.tla) verifies every function the real
compiler emits for the fixture corpus and for generated limit/shape templates, over all CFG paths."""
import glob, json, os, random, collections
import vlib, bytecode


def template_sources(tier, rnd):
    """Small generated programs that stress the stack bookkeeping: tries in functions with parameters and
    locals, break/continue/return out of nested scopes, sends, ternaries, and/or, closures, classes."""
    out = []
    stm_pool = [
        "let t{n} = {n};",
        "print(a{n});" if False else "print({n});",
        "if {n} > 1 {{ let u = {n}; print(u); }}",
        "ch <- {n};",
        "let q{n} = true ? {n} : 0;",
        "let r{n} = nil || {n};",
        "let s{n} = [1,2,3].len() && {n};",
        "let w{n} = \"a${{{n}}}b\";",
        "let f{n} = |x| x + {n};",
        "let g{n} = || t0;",
        "let k{n} = {n}; let h{n} = || k{n} = k{n} + 1; h{n}();",
        "for c{n} in 1.times() {{ let h = || c{n}; print(h()); }}",
        "let o{n} = [1, 2][0] + {{'a': 1}}['a'];",
        "let u{n} = (1, 2); print(u{n}[1]);",
    ]
    exits = ["", "break;", "continue;", "return {n};", "raise Error('x');"]

    def block(n_stmts, depth, loop, k):
        lines = []
        for j in range(n_stmts):
            s = rnd.choice(stm_pool).format(n=k * 10 + j)
            lines.append(s)
        if depth > 0:
            kind = rnd.choice(["try", "while", "for", "if", "try"])
            inner = block(rnd.randint(0, 2), depth - 1, loop or kind in ("while", "for"), k + 1)
            ex = rnd.choice(exits).format(n=k)
            if ex in ("break;", "continue;") and not (loop or kind in ("while", "for")):
                ex = ""
            if kind == "try":
                lines.append("try { " + " ".join(inner) + " " + ex + " } catch e: Error { print(e.message); " +
                             rnd.choice(["", "let z = 1; print(z);", "let h = || e.message; print(h());",
                                         "let z = 2; let h = || e.message + str(z); let y = 3; print(h(), y);",
                                         "fn inner() { return e; } print(inner().message);"]) + " }")
            elif kind == "while":
                lines.append("let i%d = 0; while i%d < 2 { i%d = i%d + 1; " % (k, k, k, k) + " ".join(inner) + " " + ex + " }")
            elif kind == "for":
                lines.append("for x%d in 2.times() { " % k + " ".join(inner) + " " + ex + " }")
            else:
                lines.append("if true { " + " ".join(inner) + " " + (ex if ex.startswith("return") or ex.startswith("raise") or loop else "") + " }")
        return lines

    n = 150 if tier == "quick" else 3000
    for t in range(n):
        params = ", ".join(f"p{i}" for i in range(rnd.randint(0, 3)))
        body = " ".join(["let t0 = 0;"] + block(rnd.randint(0, 3), rnd.randint(1, 3), False, 1) + ["return t0;"])
        import re
        ibody = re.sub(r"return [^;]*;", "return;", body)
        src = f"let ch = chan(50);\nfn f({params}) {{ {body} }}\nclass A {{ init({params}) {{ {ibody} }} m({params}) {{ {body} }} }}\n"
        # a subclass whose methods reach the superclass in every form (fused and un-fused super calls, super methods as
        # values, field writes) in front of and inside the try blocks: handler depths after each of those instructions
        cnt = [0]
        def sup(m_):
            cnt[0] += 1
            return rnd.choice(["try {{", "super.sm({n}); try {{", "let sv{n} = super.sm; try {{", "try {{ super.sm({n}, {n});", "print(super.sm0()); try {{",
                               "self.fld{n} = {n}; try {{", "let sw{n} = super.sm({n}) + super.sm0(); try {{ print(sw{n});",
                               "print(g(super.sm)); try {{"]).format(n=cnt[0])
        mbody = re.sub(r"try \{", sup, body)
        src += f"fn g(x) {{ return x; }}\nclass B {{ sm(a) {{ return a; }} sm0() {{ return 0; }} }}\nclass D : B {{ m({params}) {{ {mbody} }} static s({params}) {{ {body} }} }}\n"
        src += " ".join(block(rnd.randint(0, 2), rnd.randint(1, 2), False, 5)).replace("return", "print") + "\n"
        out.append((f"tpl:{t}", src))
    # limit templates
    filler = " ".join("t0;" for _ in range(24000))
    out.append(("limit:try>64KiB", f"fn f() {{ let t0 = 0; try {{ {filler} raise Error('x'); }} catch e: Error {{ print(e.message); }} return t0; }}"))
    out.append(("limit:loop>64KiB", f"fn f() {{ let t0 = 0; while t0 < 1 {{ {filler} t0 = 1; }} return t0; }}"))
    many = " ".join(f"let v{i} = {i};" for i in range(250))
    out.append(("limit:250locals", f"fn f() {{ {many} try {{ raise Error('x'); }} catch e: Error {{ print(v249); }} }}"))
    deep = "1" + "".join(f" + ({i}" for i in range(60)) + ")" * 60
    out.append(("limit:deep-temps", f"fn f(a) {{ return [{deep}, {deep}]; }}"))
    caps = " ".join(f"let c{i} = {i};" for i in range(100))
    uses = " + ".join(f"c{i}" for i in range(100))
    out.append(("limit:100captures", f"fn f() {{ {caps} return || {uses}; }}"))
    consts = ", ".join(str(1000 + i) for i in range(300))
    out.append(("limit:300consts", f"let big = [{consts}]; print(big[299]);"))
    return out


def corpus_sources(tier, rnd):
    files = sorted(glob.glob("/repo/laythe_vm/fixture/language/**/*.lay", recursive=True)) + \
        sorted(glob.glob("/repo/laythe_vm/fixture/std_lib/**/*.lay", recursive=True))
    if tier == "quick" and len(files) > 400:
        files = rnd.sample(files, 400)
    import gen
    generated = gen.family_sources(rnd, 400 if tier == "quick" else 4000)
    return [("file:" + os.path.relpath(f, "/repo/laythe_vm/fixture"), open(f).read()) for f in files] + generated


def fun_records(cid, dump):
    """dump -> list of TLC function records (+ decode errors)."""
    recs, errs = [], []
    props, invokes = dump["property_slots"], dump["invoke_slots"]
    for k, fn in enumerate(dump["funs"]):
        ins, err = bytecode.decode(fn)
        fid = f"{cid}#{k}:{fn['name']}"
        if err:
            errs.append((fid, err))
            continue
        starts = [0] * len(fn["code"])
        for idx, i in enumerate(ins):
            starts[i["pc"]] = idx + 1
        consts = fn["consts"]
        for i in ins:
            i["ck"] = consts[i["a"]]["k"] if i["a"] < len(consts) else "none"
        recs.append({"id": fid, "arity": fn["arity"]["min"] if fn["arity"]["k"] != "default" else fn["arity"]["max"],
                     "max_slots": fn["max_slots"], "captures": fn["captures"], "nconsts": len(consts),
                     "props": props, "invokes": invokes, "codelen": len(fn["code"]), "code": ins, "starts": starts})
    return recs, errs


def run(pid, tier, replay=None):
    v = vlib.Verdict(pid, tier)
    rnd = random.Random(vlib.seed())
    binary = vlib.build_harness()
    v.cov["rule"] = ("one abstract exploration per function the real compiler emitted: all fixture programs "
                     "(language, std_lib) plus generated templates (try/loops/breaks/sends/closures in functions with "
                     "0-3 parameters, limit templates); a function is non-trivial if it has a branch, loop or handler; "
                     "distinct by encoded bytes")
    if replay:
        srcs = [tuple(json.load(open(replay))["replay"]["source"])]
    else:
        srcs = corpus_sources(tier, rnd) + template_sources(tier, rnd)
    cases = [{"id": cid, "src": src} for cid, src in srcs]
    res = vlib.run_batch(binary, cases, subcmd="dump", per_case_timeout=45)
    srcmap = dict(srcs)
    funs, seen = [], set()
    rejected = 0
    for c in cases:
        r = res.get(c["id"])
        if r is None:
            raise vlib.ToolError("no dump for " + c["id"])
        if r["status"] == "compile_error":
            rejected += 1
            continue
        if r["status"] != "ok":
            v.violation(f"compiler {r['status']} on {c['id']}: {r.get('panic', '')}"[:300], {"source": [c["id"], c["src"]]})
            continue
        recs, errs = fun_records(c["id"], r["dump"])
        for fid, err in errs:
            v.violation(f"undecodable code in {fid}: {err}", {"source": [c["id"], c["src"]]})
        for rec in recs:
            key = json.dumps([rec["code"], rec["arity"], rec["max_slots"]], sort_keys=True)
            if key in seen:
                continue
            seen.add(key)
            funs.append(rec)
    v.notes["sources"] = len(cases)
    v.notes["sources_rejected_by_compiler"] = rejected
    os.makedirs(vlib.WORK, exist_ok=True)
    # TLC holds the functions of one run as a single value: verify them in chunks of 2500
    states = []
    CH = 2500
    for k in range(0, len(funs), CH):
        path = os.path.join(vlib.WORK, f"funs_{os.getpid()}_{k}.ndjson")
        with open(path, "w") as f:
            for rec in funs[k:k + CH]:
                f.write(json.dumps(rec) + "\n")
        r = vlib.tlc("Bytecode", "Bytecode", env={"FUNS": path}, workers=min(vlib.NCPU, 12), timeout=600 if tier == "quick" else 1800, heap="16g")
        os.remove(path)
        if r["distinct"] == 0 or r["timeout"] or any(e.startswith("Error:") for e in r["errors"]):
            raise vlib.ToolError("TLC verifier failed:\n" + r["out"][-2500:])
        v.cov["states"] += r["distinct"]
        v.cov["transitions"] += r["states"]
        for st in vlib.tlc_json(r["out"], "ST"):
            st["f"] += k          # function numbers are per chunk
            states.append(st)
    per = collections.defaultdict(set)
    breaches = collections.defaultdict(set)
    normal_arrivals = collections.defaultdict(set)
    for s in states:
        per[(s["f"], s["pc"])].add((s["d"], s["h"]))
        if not s["x"]:
            normal_arrivals[s["f"]].add(s["pc"])
        if s["bad"]:
            breaches[s["f"]].add((s["pc"], s["bad"], s["d"]))
    for (f, pc), ds in per.items():
        if len(ds) > 1:
            breaches[f].add((pc, "join reached with different depths/handler heights " + str(sorted(ds)), -1))
    for f, rec in enumerate(funs, start=1):
        for i in rec["code"]:
            if i["op"] == "PushHandler":
                tgt = i["pc"] + i["len"] + i["b"]
                if tgt in normal_arrivals[f]:
                    breaches[f].add((i["pc"], f"catch entry {tgt} is also reachable by ordinary control flow", -1))
    nontrivial = 0
    for rec in funs:
        if any(i["op"] in ("JumpIfFalse", "Jump", "Loop", "PushHandler", "And", "Or") for i in rec["code"]):
            nontrivial += 1
    v.cov["evaluations"] = len(funs)
    v.cov["distinct_nontrivial"] = nontrivial
    v.cov["traces_validated_against_impl"] = 0
    classes = collections.Counter()
    for f, bs in sorted(breaches.items()):
        rec = funs[f - 1]
        cid = rec["id"].split("#")[0]
        first = sorted(bs)[0]
        ins = next((i for i in rec["code"] if i["pc"] == first[0]), None)
        classes[first[1].split(" [")[0][:60]] += 1
        v.violation(f"{rec['id']} pc={first[0]} {ins['op'] if ins else '?'}: {first[1]} (depth {first[2]}, arity {rec['arity']}, "
                    f"max_slots {rec['max_slots']})", {"source": [cid, srcmap.get(cid, "")], "function": rec["id"], "breaches": sorted(bs)[:10]})
    v.notes["breach_classes"] = dict(classes)
    for rec in funs[:2] + funs[len(funs) // 2: len(funs) // 2 + 2]:
        v.cov["samples"].append({"id": rec["id"], "arity": rec["arity"], "max_slots": rec["max_slots"],
                                 "code": [[i["pc"], i["op"], i["a"], i["b"]] for i in rec["code"]][:40]})
    return v.finish()
