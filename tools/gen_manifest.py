#!/usr/bin/env python3
"""Regenerate MANIFEST.json from the table below (single source of truth for the check registry)."""
import json, os, subprocess
V = os.path.dirname(os.path.dirname(os.path.abspath(__file__)))

CHECKS = {
 "C07": dict(level="model_checking", design="5/C07", technique="TLA+ contract (Fibers.tla) + as-is scheduler model (Sched.tla) exhaustively model-checked with TLC; TLC-generated programs replayed on the VM; recorded event traces validated against the contract with TLC",
   text="Every channel event stream the hooked VM produces for TLC-chosen fiber programs (exhaustive witnesses + simulated behaviours) and for the channel fixtures is accepted by the contract Fibers.tla (FIFO, exactly once, capacity, sync hand-over, post-close behaviour, queue length after every op); the as-is model Sched.tla is model-checked against the same contract for all programs within 3 fibers x 2 channels x 3 ops; beyond that bound the model itself selects the behaviours: in the 4 fibers x 2 channels x 3 ops model (1.77 M states) the 1262 finished behaviours in which a waiter search skips a finished fiber's entry and finds a live waiter behind it are replayed (Sched.tla focus mode).",
   note="Trusts the sched hooks (events emitted at the linearisation points) and TLC. Bounded: fibers<=4, channels<=3 (sync, cap 1, cap 2), ops<=5 per fiber, values are small integers."),
 "C08": dict(level="model_checking", design="5/C08", technique="TLA+ contract (Fibers.tla Deadlock/CanMove) + as-is scheduler model (Sched.tla) model-checked with TLC; programs from TLC behaviours replayed; traces validated; known scheduler defects attributed by exact as-is prediction",
   text="A reported deadlock is accepted only if no fiber can move in the contract state; host panics, hangs and spurious deadlocks on generated programs are violations unless the as-is model predicted exactly that execution and the class is a listed known finding.",
   note="Same trusted base as C07. Liveness is judged on terminating generated programs (per-case timeout = hang)."),
}

CHECKS["C06"] = dict(level="model_checking", design="5/C06", technique="TLC as a bytecode verifier: Bytecode.tla abstract machine (pc, depth, handler stack) explored over all CFG successors of every function dumped from the real compiler, with an independently written opcode/effect table",
   text="For every function the real compiler emits for the fixture corpus and for generated try/loop/closure/limit templates, TLC explores all control-flow paths of the abstract stack machine: unique depth and handler height per pc, never below the parameters, never above the reserved capacity, operands in range, jumps on instruction boundaries, PushHandler records the live depth, no handler active at return.",
   note="Trusts the compile_dump hook (bytes, constants, arity, max_slots as the VM will see them) and the effect table in Bytecode.tla, written from vm/ops.rs. Bounded by the corpus of functions (fixtures + generated templates); not a proof over all programs. Declared locals are approximated by operand checks (local index below the live depth).")
CHECKS["C12"] = dict(level="model_checking", design="5/C12", technique="TLA+ symbolic stack machine (Peephole.tla Equiv/LinesOK) judged by TLC on (input, output) pairs recorded from the real optimiser for all windows up to a length bound, plus a cursor-machine transcription of peephole_optimize checked step by step",
   text="Every window of length <= 3 over 33 instruction units (quick; sampled to length 5 in thorough) and every fixture function is run through the real optimiser; TLC checks that input and real output have equal outcome sets (effects, stack, variables, exit) from the entry and from every label, and that lines follow their instructions; the transcription's every single rewrite step preserves equivalence.",
   note="Trusts the peephole hook (calls the real peephole_optimize), and the symbolic semantics in Peephole.tla. Windows are bounded in length; whole functions are bounded to 220 instructions. Runs of >= 256 Drops are outside the quantifier (the compiler cannot emit them).")

_lang_note = ("Trusts Lang.tla as the statement of the source semantics (written from the language documentation and fixtures, "
              "not from the compiler), the pretty printer (tools/lang.py) and TLC. Numbers are small integers plus nan/inf/-inf/-0; "
              "error messages are not compared; program shapes are those of the seeded generator (tools/gen.py).")
for _pid, _t in {
  "C01": "Generated programs over the core expression/statement grammar (random well-scoped programs in six positions and three layouts, the exhaustive operator table over 17 special atoms, all ordered operator pairs as unparenthesised chains) are executed by TLC on the TLA+ semantics Lang.tla; the VM must print the same lines and end the same way.",
  "C02": "Closure/scoping programs (nested functions to depth 3, captures of parameters, locals, loop items, catch variables, self and module names, closures called after the declaring call returned, interleaved writes) are executed by TLC on Lang.tla (store model: fresh location per executed declaration, one location per for item) and compared with the VM.",
  "C03": "Class programs (hierarchies to depth 3, every overriding pattern, init field sets incl. conditional assignment, invoke / get-then-call / bound methods / super / static / field-shadows-method / undeclared members, call sites visited by sequences of receiver classes, class factories, objects in fields) are executed by TLC on Lang.tla and compared with the VM.",
  "C04": "Exception programs (try placement in module/function/method/loop/callback with 0-3 parameters and locals, raise 0-2 calls deep, explicit/runtime/native errors, typed/untyped/multiple catch clauses, every way of leaving the try, state printed afterwards, a late raise) are executed by TLC on Lang.tla (nearest dynamically enclosing matching handler, handler deactivated on every exit) and compared with the VM; the call frame / handler / nested-loop events of every run are validated by TLC against the contract Unwind.tla (a handler is pushed and popped in its own frame, no frame returns with a handler left, a search takes the innermost handler and only above the frame that called a native, an unwind cuts the frames back to the handler's frame, a nested loop ends at its own depth, at most 255 frames).",
  "C14": "The exhaustive operator table over the special numerals (0/-0/NaN/inf and all other atom kinds), random core programs, class and closure programs, and programs that use special values (NaN, -0, 0, inf, -inf, nil, booleans, strings) as operands of == / !=, as list and tuple members for has / index and as map keys for set / get / has / remove / insert are executed by TLC on Lang.tla once; BOTH builds of the VM (tagged enum and --features nan_boxing) must reproduce the prediction, so any disagreement between the builds is a disagreement of one of them with the spec.",
  "C18": "Call chains of depth <= 4 over functions, methods, initialisers, static methods and lambdas, optionally passing through the callback of a native that runs on its own call frame (each, reduce, all, any, sort, each over a lazy map) after another such native has run and returned, with a raise / runtime error / native error / exit(n) at each level, caught at each level (incl. non-matching handlers on the way, wrapping with inner errors) or not at all, printed in two line layouts: TLC computes on Lang.tla the printed lines, e.message / e.inner / e.backTrace contents, the traceback frames (innermost first) and the exit status; the VM's stdout, stderr traceback and status must match; frame / handler events are validated against Unwind.tla as for C04.",
  "C19": "Interactive sessions: the top-level statements of generated modules (core, class, closure and exception families) are entered one per prompt line, with lines that fail to compile and lines that raise inserted; TLC runs the same entries on Lang.tla's session semantics (an entry that raises is reported and the session continues with everything defined so far); the prompt's stdout, the sequence of reported error classes and the normal end of the session must match.",
  "C17": "Acyclic module graphs of up to 4 files plus main (every import form, multiplicity, order relative to the module's own definitions; exports of let/fn/class; private state observable only through exported functions; requests for private names, missing files and a module that does not compile) are executed by TLC on Lang.tla's module semantics (body runs once, before the importer continues; an import binds exactly the exported values); the VM run over in-memory files must print the same lines and end the same way.",
  "C10": "Histories of mutations (push, multi-push, insert, remove, pop, index assignment, clear, growth inside helper functions and methods, map set/remove, field writes) applied through randomly chosen aliases of 1-3 subjects (lists of 0-4 elements so that growth crosses the capacity, maps, instances) whose aliases live in variables, list / nested list / tuple / map elements, fields and closures, at module level or in a function's locals; interleaved with == / != between alias paths, map has/get/index/set keyed by the subject, list and tuple has/index, and prints through other aliases. TLC runs the same program on Lang.tla, where an object is a heap id that never changes.",
  "C11": "Histories of list, tuple, map and string operations with boundary, negative, fractional and wrongly typed arguments, each followed by a print of the receiver, and iterator pipelines (sources list/tuple/string/times/split, adaptors map/filter/take/skip/zip/chain with logging, raising and mutating callbacks, consumers list/into/reduce/each/all/any/first/last/for/next) are executed by TLC on Lang.tla's native models (finite sequence, finite map, code-point strings, pull-based lazy streams); each operation sits in a catch chain that names the error class, so the class of every raised error, the unchanged receiver and the order of callback effects must all match; frame / handler / nested-loop events (errors crossing native callbacks) are validated against Unwind.tla as for C04.",
}.items():
    CHECKS[_pid] = dict(level="model_checking", design="5/" + _pid, text=_t, note=_lang_note,
        technique="explicit TLA+ executable semantics (Lang.tla, CEK machine) run by TLC on every generated program to predict output and status; predictions replayed on the real VM (mode G)")

CHECKS["C13"] = dict(level="model_checking", design="5/C13", technique="TLA+ contract Cache.tla (class table rebuilt from events; every probe result = lookup in the receiver's current class) validated by TLC on cache event traces recorded from the VM; Lang.tla predictions compared with cached / forced-miss / cached-under-collection runs",
   text="Class programs and class-churn programs are run with caches on, with every probe forced to miss and with caches on under a dense collection schedule; all three must reproduce the TLC prediction from Lang.tla, and TLC validates every recorded probe (hit or miss) and class-table event against Cache.tla.",
   note="Trusts the cache hooks (probe events at the four sites, registry ids fresh per op_class), Lang.tla for outputs, TLC. Bounded by the generated program shapes; collection schedule every 3rd allocation with full sweeps.")

_gc_note = ("Trusts the allocator hooks (alloc / gc / intern events built inside allocate and the sweep functions; collection schedule switch), "
            "Lang.tla and Sched.tla for the predicted outputs, TLC. Schedules: every allocation, every 2nd, every 7th, a low byte threshold (more in thorough), with and "
            "without forced full sweeps; C05 also in the nan_boxing build. Memory safety is judged through its symptoms (output change, crash, refused allocator event).")
CHECKS["C05"] = dict(level="model_checking", design="5/C05", note=_gc_note,
   technique="TLC predictions (Lang.tla, Sched.tla) replayed on the VM under TLC-independent collection schedules; allocator event traces validated by TLC against the contract Gc.tla",
   text="Programs whose behaviour TLC predicted - core, closure, class, exception and string families, and fiber/channel programs in which every value crossing a channel, every fiber body and every captured variable is a heap object reachable only through buffers, parked fibers or frame captures - are run under dense collection schedules; output, event stream and status must equal the schedule-free prediction, and the allocator events must be accepted by Gc.tla (no block freed twice or unallocated, nursery cycles free only nursery objects, intern table consistent).")
CHECKS["C20"] = dict(level="model_checking", design="5/C20", note=_gc_note + " The ledger allocator of the harness records every block's true layout in a private header.",
   technique="allocator event traces recorded from before the VM exists validated by TLC against Gc.tla (exact byte accounting after every cycle, threshold = 2 x live, frees, intern table); ledger global allocator; steady-state live size",
   text="For generated programs under the schedules, TLC checks on the recorded allocator events that after EVERY collection the reported byte count equals the sum of the sizes of the blocks still held and the next threshold is twice that, that nothing is freed twice, and that the intern table holds exactly one live string per content; the harness allocator checks every release against the size and alignment of its allocation; loop programs must hold the same number of bytes after k, 2k and 4k iterations.")
CHECKS["C09"] = dict(level="model_checking", design="5/C09", note=_gc_note,
   technique="Lang.tla predictions (content equality) replayed under collection schedules; intern events validated by TLC against Gc.tla S4",
   text="String programs (equal contents built by literal, concatenation, interpolation, str(); equal strings created, dropped and collected in between; strings as field and method names, list members) run under the schedules must print what Lang.tla predicts, and TLC validates the intern hit/miss/evict events: a hit returns the table's string for that content, a miss happens only when no entry exists, no entry outlives its string.")

CHECKS["C16"] = dict(level="model_checking", design="5/C16",
   technique="TLA+ specification Natives.tla of the signature gate in front of every built-in, over the signature table read from the running VM; TLC enumerates every call (native x argument kinds) and decides the gate's verdict; each call is replayed on the VM with concrete values (conformance of the verdict, no host failure); program families with outcomes known by construction",
   text="Every built-in of the global module and the standard library (473 natives) is called with every vector of up to 3 (thorough: 4) arguments over 15 value kinds, with boundary values per kind; TLC decides on Natives.tla whether the gate refuses the call (arity / kind) or the body runs, the VM must agree and must never panic, abort, fault or hang. Generated programs: unbounded recursion through cycles of 22 kinds of call link (functions, closures, methods, initialisers, bound methods, .call, each iterator adaptor's callback, sort, interpolation, super, index calls) on the main fiber, a launched fiber and under a native callback must end in a catchable stack-overflow error; non-callables called, launched and passed as callbacks; non-errors raised; 20 kinds of bad superclass; error classes with odd initialisers raised uncaught, caught, wrapped and under callbacks; errors while handling errors; exit() at every depth; launch of every callable kind; str() that returns a non-string, raises or recurses at every site that calls it; self-containing values; module names used before their definition ran. The frame / handler / nested-loop events of every family program are validated against Unwind.tla (frame limit, errors crossing natives, launch splitting a frame off).",
   note="Trusts the natives dump hook and TLC. The gate's verdict is observed through its refusal messages, whose shape is learnt from the VM itself at the start of every run (probe calls with known wrong counts and kinds, generalised over name, numbers and kinds, and cross-checked on a second probe set); if the refusals cannot be recognised reliably only message-independent outcomes are judged (a call the gate must refuse went through; a host failure). Values per kind are drawn from fixed pools (boundary numbers, multi-byte strings, empty and grown collections). Quick: debug profile for everything, the calls whose body runs again under a collection at every allocation, the release profile and the nan_boxing build for a 40 000-call sample and all families each; thorough: both profiles and the collection schedule for everything. Two known findings (blocking channel operation under a native callback; collector recursion on very deep structures) are listed in known_findings.json.")

CHECKS["C15"] = dict(level="model_checking", design="5/C15",
   technique="TLA+ contract Frontend.tla (a pass is submit, diagnostics, then reject or accept-execute-finish; a session keeps its definitions across rejected entries), model-checked by TLC and used to validate event traces of real passes (file runs, interactive sessions) recorded from the VM; inputs from mutation of a program corpus, exhaustive short token sequences, boundary counts and nesting",
   text="About 300 000 texts per quick run (the repository's .lay fixtures and generated programs mutated at token, line and byte level; every token sequence up to length 3 over a 48-token alphabet, bare and behind declarations of the names they use; 255/256-style boundary counts for locals, parameters, arguments, captures, fields, methods, collection literals, interpolation segments, 65535/65536 constants, jumps beyond 64 KiB; tokens up to 100 000 characters (1 000 000 thorough); nesting of 33 bracketing and prefix constructs up to depth 500) are compiled by the real scanner, parser, resolver and compiler under crash and hang isolation; 1500 rejected texts are run as files behind a printing statement and 600 are entered at the prompt between definitions and probes; TLC validates every recorded pass against Frontend.tla (ends; rejected exactly when diagnosed, with the compile-error status; nothing executed; definitions intact and the session continues).",
   note="Trusts the harness's compile-only entry (lvh dump = laythe_vm::verif::compile_dump, the same pipeline Vm::run uses), the 'error:' blocks on stderr as the observable diagnostics, TLC. Nesting is exercised to depth 500 (700 thorough) on an 8 MiB stack; what is accepted is not judged here (C01/C19), only how a pass may end.")

NOT_APPLICABLE = {}

def main():
    src = subprocess.run(["git", "-C", "/repo", "log", "--format=%H %s"], capture_output=True, text=True).stdout.splitlines()
    hooks = [l.split()[0] for l in src if " verif hooks" in l or l.split(" ", 1)[1].startswith("verif hooks")]
    props = [json.loads(l)["id"] for l in open(os.path.join(V, "properties.jsonl"))]
    checks = []
    for pid in props:
        if pid not in CHECKS:
            continue
        c = CHECKS[pid]
        checks.append({
            "property_id": pid,
            "quick_cmd": f"./check {pid} --tier quick",
            "thorough_cmd": f"./check {pid} --tier thorough",
            "evidence_file": f"/verif/evidence/{pid}.json",
            "replay_cmd_template": f"./check {pid} --replay {{path}}",
            "engine": "tlc+lvh",
            "level_claimed": {"category": c["level"], "text": c["text"], "design_ref": "DESIGN.md section " + c["design"]},
            "level_note": c["note"],
            "technique": c["technique"],
        })
    na = [{"property_id": p, "reason": NOT_APPLICABLE.get(p, "not built yet in this round: no check is registered; see DESIGN.md section 5 for the planned TLA+ specification")}
          for p in props if p not in CHECKS]
    m = {
        "version": 1,
        "setup_cmd": "cd /verif/harness && CARGO_NET_OFFLINE=true cargo build --offline -q 2>&1 | tail -5; test -x /verif/harness/target/debug/lvh",
        "hooks": {
            "guard": "cargo feature `verif` on laythe_core, laythe_lib, laythe_vm",
            "enable": "the harness crate /verif/harness depends on /repo/laythe_{core,lib,vm} by path with features=[\"verif\"]; every check runs `cargo build --offline` there first, so it rebuilds from /repo's working tree",
            "baseline_off_cmd": "cd /repo && cargo test --workspace --no-fail-fast --offline",
            "source_commits": hooks,
            "add_only": True,
        },
        "engines": [
            {"name": "tlc+lvh", "path": "/verif/check", "serves_properties": [c["property_id"] for c in checks],
             "kind_free_text": "python driver: TLC (exhaustive / -simulate / trace validation) over the TLA+ modules in /verif/spec, Rust harness lvh replays generated programs on the hooked VM"},
        ],
        "checks": checks,
        "not_applicable": na,
        "notes": "One technique family: explicit TLA+ specifications checked with TLC and bound to the implementation by replay (spec -> impl) and trace validation (impl -> spec). See DESIGN.md.",
    }
    json.dump(m, open(os.path.join(V, "MANIFEST.json"), "w"), indent=1)

if __name__ == "__main__":
    main()
