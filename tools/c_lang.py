"""Mode G checks driven by Lang.tla: C01 (expressions / control flow), C02 (scoping / closures), C03 (classes),
C04 (exceptions).  TLC executes the TLA+ semantics on every generated program and prints the predicted output and
final status; the real VM runs the printed source; any difference is a candidate violation."""
import json, random, collections
import vlib, lang, langrun, gen, unwindlib

FAMILIES = {}


def family(pid):
    def deco(f):
        FAMILIES[pid] = f
        return f
    return deco


@family("C01")
def fam_c01(rnd, tier):
    n = 2000 if tier == "quick" else 25000
    out = []
    for i in range(n):
        ast, pos = gen.program_c01(rnd)
        out.append((f"c01:{i}:{pos}", ast, ["canon", "min", "oneline"] if i % 3 == 0 else (["canon", "typed"] if i % 3 == 1 else ["canon", "alt"])))
    # (i) exhaustive operator table over the special atoms; precedence/associativity chains printed WITHOUT parentheses
    for i, ast in enumerate(gen.operator_table_programs()):
        out.append((f"c01op:{i}", ast, ["canon"]))
    for i, ast in enumerate(gen.precedence_programs(rnd, 800 if tier == "quick" else 20000)):
        out.append((f"c01prec:{i}", ast, ["min"]))
    for i, ast in enumerate(gen.index_twice_programs()):
        out.append((f"c01ix:{i}", ast, ["canon"]))
    return out


@family("C02")
def fam_c02(rnd, tier):
    n = 1500 if tier == "quick" else 12000
    out = [(f"c02:{i}", gen.program_c02(rnd), ["canon", "typed"] if i % 4 == 0 else (["canon", "alt"] if i % 4 == 1 else ["canon"])) for i in range(n)]
    # the general generator also produces closures, loops and nested functions
    for i in range(n // 2):
        ast, pos = gen.program_c01(rnd, opts=dict(err=0.02))
        out.append((f"c02g:{i}:{pos}", ast, ["canon"]))
    return out


@family("C03")
def fam_c03(rnd, tier):
    n = 1200 if tier == "quick" else 15000
    return [(f"c03:{i}", gen.program_c03(rnd), ["canon", "typed"] if i % 4 == 0 else (["canon", "alt"] if i % 2 == 1 else ["canon"])) for i in range(n)]


@family("C04")
def fam_c04(rnd, tier):
    n = 2000 if tier == "quick" else 15000
    out = [(f"c04:{i}", gen.program_c04(rnd), ["canon", "typed"] if i % 4 == 0 else (["canon", "alt"] if i % 4 == 1 else ["canon"])) for i in range(n)]
    for i in range(n // 3):
        ast, pos = gen.program_c01(rnd, opts=dict(err=0.15))
        out.append((f"c04g:{i}:{pos}", ast, ["canon"]))
    return out


def one_line(src):
    return " ".join(l.strip() for l in src.splitlines()) + "\n"


def render(ast, layout):
    if layout == "oneline":
        src, lines = lang.to_source(ast, "canon")
        return one_line(src), {}
    return lang.to_source(ast, layout)


@family("C14")
def fam_c14(rnd, tier):
    """the families where the value representation matters most: the exhaustive operator table, precedence
    chains, numbers/strings/collections as values flowing through variables, closures, fields and lists"""
    out = []
    for i, ast in enumerate(gen.operator_table_programs()):
        out.append((f"c14op:{i}", ast, ["canon"]))
    n = 500 if tier == "quick" else 8000
    for i in range(n):
        ast, pos = gen.program_c01(rnd)
        out.append((f"c14:{i}:{pos}", ast, ["canon"]))
    for i in range(n // 2):
        out.append((f"c14cls:{i}", gen.program_c03(rnd), ["canon"]))
        out.append((f"c14clo:{i}", gen.program_c02(rnd), ["canon"]))
    for i in range(n):
        out.append((f"c14key:{i}", gen.program_c14_keys(rnd), ["canon"]))
    # objects whose identity outlives a relocation (lists that grow through aliases, also while they are map keys) and the
    # collection / iterator natives: equality and hashing of object values are written twice as well
    for i in range(n // 2):
        out.append((f"c14id:{i}", gen.program_c10(rnd), ["canon"]))
    for i in range(n // 4):
        out.append((f"c14nat:{i}", gen.program_c11(rnd), ["canon"]))
    return out


@family("C18")
def fam_c18(rnd, tier):
    n = 2500 if tier == "quick" else 20000
    return [(f"c18:{i}", gen.program_c18(rnd), ["canon", "pad"]) for i in range(n)]


@family("C17")
def fam_c17(rnd, tier):
    n = 2500 if tier == "quick" else 15000
    return [(f"c17:{i}", gen.program_c17(rnd), ["canon"]) for i in range(n)]


@family("C10")
def fam_c10(rnd, tier):
    n = 1500 if tier == "quick" else 20000
    return [(f"c10:{i}", gen.program_c10(rnd), ["canon"]) for i in range(n)]


@family("C11")
def fam_c11(rnd, tier):
    n = 800 if tier == "quick" else 5000
    return [(f"c11:{i}", gen.program_c11(rnd), ["canon"]) for i in range(n)]


BAD_LINES = ["let = ;", "fn (", "print(;", "class { }", "let q = 1 +;", "}", "if { }", "let 5 = 5;", "return 1;", "\"unterminated", "break;"]
ERR_LINES = ["nil + 1;", "[1][7];", "raise Error(\"repl boom\");", "3();", "nil.zz;"]
ERR_CLASSES = ["RuntimeError", "IndexError", "Error", "RuntimeError", "RuntimeError"]


@family("C19")
def fam_c19(rnd, tier):
    """interactive sessions: the top-level statements of generated modules entered one per line, with lines that
    fail to compile and lines that raise thrown in; the model runs the same entries as a session"""
    n = 1200 if tier == "quick" else 10000
    out = []
    for i in range(n):
        c = rnd.random()
        if c < 0.4:
            ast, _ = gen.program_c01(rnd, position="module")
        elif c < 0.7:
            ast = gen.program_c03(rnd)
        elif c < 0.85:
            ast = gen.program_c02(rnd)
        else:
            ast = gen.program_c04(rnd)
        entries = list(ast["kids"])
        # runtime-error entries are part of the session the model runs
        k = rnd.randint(0, 2)
        for _ in range(k):
            j = rnd.randrange(len(ERR_LINES))
            e = [lang.ExprSt(lang.Bin("+", lang.Nil(), lang.Num(1))), lang.ExprSt(lang.Index(lang.List([lang.Num(1)]), lang.Num(7))),
                 lang.Raise(lang.Call(lang.Var("Error"), [lang.Str("repl boom")])), lang.ExprSt(lang.Call(lang.Num(3), [])),
                 lang.ExprSt(lang.Prop(lang.Nil(), "zz"))][j]
            entries.insert(rnd.randint(0, len(entries)), e)
        out.append((f"c19:{i}", lang.Session(entries), ["repl"]))
    return out


def repl_lines(ast, rnd):
    """one prompt line per entry, with lines that do not compile inserted (they must leave no trace)"""
    lines = []
    for st in ast["kids"]:
        if rnd.random() < 0.25:
            lines.append(rnd.choice(BAD_LINES))
        src, _ = lang.to_source(st, "canon")
        lines.append(one_line(src).strip())
    if rnd.random() < 0.5:
        lines.append(rnd.choice(BAD_LINES))
    return lines


def compare_repl(pred, r):
    """stdout without prompts must be the predicted lines (error markers removed); stderr must report the predicted
    error classes in order; the session must end normally"""
    out = r.get("stdout", "").replace("laythe:> ", "")
    obs = out.split("\n")
    if obs and obs[-1] == "":
        obs = obs[:-1]
    want = [l for l in pred["out"] if not l.startswith("\x01")]
    errs = [l[1:] for l in pred["out"] if l.startswith("\x01")]
    for i in range(max(len(want), len(obs))):
        a = want[i] if i < len(want) else None
        b = obs[i] if i < len(obs) else None
        if a is None or b is None or not langrun.line_matches(a, b):
            return f"session stdout line {i + 1}: predicted {a!r} observed {b!r}; status {r['status']} {r.get('panic', '')}"
    if r["status"] != "ok":
        return f"session ended with {r['status']} {r.get('panic', '')}"
    import re as _re
    seen = [x for x in _re.findall(r"^([A-Z][A-Za-z0-9_]*): ", r.get("stderr", ""), _re.M) if x != "Traceback"]
    if seen != errs:
        return f"errors reported: predicted {errs} observed {seen}"
    return None


UNWIND_PIDS = ("C04", "C18", "C11")


def run(pid, tier, replay=None):
    v = vlib.Verdict(pid, tier)
    rnd = random.Random(vlib.seed() * 7919 + int(pid[1:]))
    binary = vlib.build_harness()
    langrun.learn_diag_mark(binary)
    binaries = [("enum", binary)]
    if pid == "C14":
        binaries.append(("nan_boxing", vlib.build_harness(nan_boxing=True)))
    if pid in ("C19", "C17") and not replay:
        # sessions and module graphs once more under a collection at every allocation: recompiling into a live module,
        # module objects, import fibers and the session's definitions must all survive it
        binaries.append(("enum+gc", binary))
        # ... and with laythe_core's gc_stress feature: also a collection at every stack check of every call
        binaries.append(("enum+stress", vlib.build_harness(gc_stress=True)))
    kf = {f["id"]: f for f in vlib.known_findings().get("findings", []) if pid in f.get("properties", [])}
    if replay:
        rp = json.load(open(replay))["replay"]
        progs = [(rp["id"], rp["ast"], [rp["layout"]])]
    else:
        progs = FAMILIES[pid](rnd, tier)
    cases = []
    for cid, ast, layouts in progs:
        rec = lang.multi_case_record(cid, ast["main"], ast["mods"]) if "mods" in ast and "k" not in ast else lang.case_record(cid, ast)
        rec["ast"] = ast
        rec["layouts"] = layouts
        cases.append(rec)
    preds = langrun.predict(cases, v)
    vmcases = []
    for c in cases:
        for lay in c["layouts"]:
            if lay == "repl":
                lines = repl_lines(c["ast"], random.Random(hash(c["id"]) % 100000 + vlib.seed()))
                vmcases.append({"id": f"{c['id']}|repl", "repl": lines, "files": {"main.lay": "\n".join(lines)}, "_case": c["id"], "_layout": lay, "_lines": {}})
                continue
            if "mods" in c["ast"] and "k" not in c["ast"]:
                files = {"main.lay": render(c["ast"]["main"], lay)[0]}
                for name, a in c["ast"]["mods"].items():
                    files[name + ".lay"] = a if isinstance(a, str) else render(a, lay)[0]
                vmcases.append({"id": f"{c['id']}|{lay}", "files": files, "_case": c["id"], "_layout": lay, "_lines": {}})
                continue
            src, line_of = render(c["ast"], lay)
            vmcases.append({"id": f"{c['id']}|{lay}", "files": {"main.lay": src}, "_case": c["id"], "_layout": lay, "_lines": line_of})
    vm2 = []
    for rep, b in binaries:
        extra = {"classes": ["exc"], "max_events": 200000} if pid in UNWIND_PIDS else {}
        if rep.endswith("+gc"):
            extra = dict(extra, gc={"every": 1, "force_full": True})
        res = vlib.run_batch(b, [dict({k: x[k] for k in ("id", "files", "repl") if k in x}, **extra) for x in vmcases], per_case_timeout=20)
        for x in vmcases:
            y = dict(x)
            y["_rep"] = rep
            y["_res"] = res[x["id"]]
            vm2.append(y)
    vmcases = vm2
    results = None
    skipped = collections.Counter()
    model_errors = []
    judged = 0
    distinct = set()
    bycase = {c["id"]: c for c in cases}
    for vc in vmcases:
        p = preds.get(vc["_case"])
        if p is None:
            raise vlib.ToolError("no prediction for " + vc["_case"])
        if p["st"].startswith("skip"):
            skipped[p["st"]] += 1
            continue
        if p["st"].startswith("model-error"):
            model_errors.append((vc["_case"], p["st"]))
            continue
        r = vc["_res"]
        judged += 1
        if p["steps"] > 30:
            distinct.add(vc["files"]["main.lay"])
        p2 = dict(p)
        p2["out"] = langrun.resolve_backtraces(p["out"], vc["_lines"])
        diff = compare_repl(p2, r) if vc["_layout"] == "repl" else langrun.compare(p2, r)
        if diff is None and pid == "C18":
            diff = langrun.compare_traceback(p, r, vc["_lines"])
        if diff:
            c = bycase[vc["_case"]]
            listed = [fid for fid, f in kf.items() if vc["_case"] in f.get("classes", [])]
            if listed:
                v.known_finding(listed[0], vc["id"])
                continue
            v.violation(f"{vc['id']} [{vc['_rep']} build]: {diff}"[:500],
                        {"id": c["id"], "layout": vc["_layout"], "ast": c["ast"], "source": vc["files"]["main.lay"], "files": vc["files"], "build": vc["_rep"],
                         "predicted": {"out": p["out"], "st": p["st"]},
                         "observed": {"stdout": r.get("stdout", "")[:3000], "stderr": r.get("stderr", "")[-1500:],
                                      "status": r["status"], "panic": r.get("panic", "")}})
    if pid == "C10" and not replay:
        # design level: the forwarding model with the equality / hash the tree implements (follow the chain / constant
        # per kind) keeps identity and map lookups under every interleaving of growth, partial rewriting and aliasing;
        # the two other mode pairs are the pinned tree's defect and the seeded change C10-m2 (TLC refutes both)
        r = vlib.tlc("ListFwd", "MC_ListFwd_fwd_kind", workers=2, timeout=900)
        if "No error has been found" not in r["out"]:
            if "is violated" in r["out"]:
                v.violation("ListFwd.tla: identity contract violated by the (fwd, kind) design", {"tlc": r["out"][-3000:]})
            else:
                raise vlib.ToolError("TLC on ListFwd.tla did not complete:\n" + r["out"][-1500:])
        v.cov["states"] += r["distinct"]
        v.cov["transitions"] += r["states"]
        v.notes["listfwd_design_states"] = r["distinct"]
        for cfg, inv in (("MC_ListFwd_raw_raw", "EqOK"), ("MC_ListFwd_fwd_fwd", "LookupOK")):
            r = vlib.tlc("ListFwd", cfg, workers=2, timeout=900)
            if f"Invariant {inv} is violated" not in r["out"]:
                raise vlib.ToolError(f"control failed: TLC does not refute {cfg} by {inv}:\n" + r["out"][-1500:])
    if pid == "C04" and not replay:
        # design level: every interleaving of the contract's actions on one fiber (4 frames, 3 handlers, 2 nested loops) keeps
        # HandlersNest, CaughtInsideLoop and SearchDecided; with the pinned tree's rule (a handler AT the bottom frame of a nested
        # loop is taken) TLC must refute CaughtInsideLoop - the invariant has teeth
        r = vlib.tlc("MC_Unwind", "MC_Unwind", workers=2, timeout=900)
        if "No error has been found" not in r["out"]:
            if "is violated" in r["out"]:
                v.violation("Unwind.tla: the contract's own invariants are violated", {"tlc": r["out"][-3000:]})
            else:
                raise vlib.ToolError("TLC on Unwind.tla did not complete:\n" + r["out"][-1500:])
        v.cov["states"] += r["distinct"]
        v.cov["transitions"] += r["states"]
        v.notes["unwind_design_states"] = r["distinct"]
        r = vlib.tlc("MC_Unwind", "MC_Unwind_old", workers=2, timeout=900)
        if "Invariant CaughtInsideLoop is violated" not in r["out"]:
            raise vlib.ToolError("control failed: TLC does not refute the pinned tree's unwind rule:\n" + r["out"][-1500:])
    if pid in UNWIND_PIDS:
        # every run's frame / handler / nested loop events against the contract Unwind.tla
        byid = {vc["id"] + "|" + vc["_rep"]: vc for vc in vmcases}
        runs = [(k, vc["_res"].get("events", [])) for k, vc in byid.items() if vc["_res"].get("dropped", 0) == 0]

        def describe(run_id, rej):
            vc = byid[run_id]
            c = bycase[vc["_case"]]
            return {"id": c["id"], "layout": vc["_layout"], "ast": c["ast"], "source": vc["files"]["main.lay"], "files": vc["files"], "build": vc["_rep"],
                    "unwind_event": rej}
        unwindlib.validate(v, pid, runs, describe)
    if model_errors and len(model_errors) > len(cases) // 50:
        raise vlib.ToolError(f"Lang.tla cannot execute {len(model_errors)} generated programs, e.g. {model_errors[:3]}")
    v.cov["evaluations"] = judged
    v.cov["distinct_nontrivial"] = len(distinct)
    v.cov["traces_validated_against_impl"] = judged
    v.cov["rule"] = ("programs drawn by a seeded generator (tools/gen.py) from the property's family; each is executed by "
                     "TLC on the TLA+ semantics Lang.tla (prediction) and by the VM (observation); non-trivial = the "
                     "model needed more than 30 reductions; distinct by source text")
    v.notes["skipped_by_model"] = dict(skipped)
    v.notes["model_errors"] = len(model_errors)
    v.assumptions = ["numbers are small integers plus nan/inf/-inf/-0 (no rounding); programs whose value would be a "
                     "non-integer are skipped", "text containing addresses (<fn f 0x..>) is compared as a wildcard",
                     "runtime error messages are not compared, only the error class"]
    for vc in vmcases[:3]:
        p = preds[vc["_case"]]
        v.cov["samples"].append({"id": vc["id"], "source": vc["files"]["main.lay"][:1500], "predicted_out": p["out"][:20], "predicted_status": p["st"]})
    return v.finish()
