import json,sys,re
r=json.load(open(sys.argv[1]))
rp=r['replay']
print(r['what'][:300])
for i,l in enumerate(rp['source'].splitlines()):
    s=l.strip()
    if s.startswith('} catch') or re.match(r'print\("#\d+ \w+"\);',s) or s in ('try {','}') or ' now"' in s: continue
    print(i+1,l[:200])
