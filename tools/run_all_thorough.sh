#!/bin/bash
# run every registered thorough check in turn (evidence of the thorough runs is kept under work/, the committed
# evidence files are those of the quick tier)
cd /verif
mkdir -p work/thorough
for p in ${@:-C18 C17 C19 C04 C02 C01 C03 C10 C11 C14 C13 C09 C20 C05 C06 C12 C15 C16 C07 C08}; do
  s=$(date +%s)
  cp evidence/$p.json work/thorough/$p.quick.json 2>/dev/null
  timeout 5400 ./check $p --tier thorough > work/thorough/$p.out 2> work/thorough/$p.err
  rc=$?
  cp evidence/$p.json work/thorough/$p.thorough.json 2>/dev/null
  cp work/thorough/$p.quick.json evidence/$p.json 2>/dev/null
  echo "$p exit=$rc wall=$(( $(date +%s) - s ))s viol=$(grep -c '^VIOLATION' work/thorough/$p.out) known=$(grep -c '^KNOWN-FINDING' work/thorough/$p.out)"
done
