"""Seeded generators of well-scoped Laythe programs (ASTs, see lang.py) for the mode-G families.
Generation is only input selection: what each program must do is decided by TLC running Lang.tla."""
import random
from lang import *

INTS = [0, 1, 2, 3, 7, -1]
STRS = ["", "a", "b", "ab", "é"]
ARITH = ["+", "-", "*", "/"]
CMP = ["<", "<=", ">", ">=", "==", "!="]


class Scope:
    def __init__(self, parent=None, fn_boundary=False, kind=None):
        self.parent = parent
        self.vars = {}          # name -> type hint ("num","str","bool","nil","list","fn<k>","any","inst:<C>","class:<C>")
        self.fn_boundary = fn_boundary
        self.kind = kind

    def lookup(self, name):
        s = self
        while s:
            if name in s.vars:
                return s.vars[name]
            s = s.parent
        return None

    def visible(self):
        out = {}
        s = self
        while s:
            for k, v in s.vars.items():
                out.setdefault(k, v)
            s = s.parent
        return out


class Gen:
    def __init__(self, rnd, opts=None):
        self.r = rnd
        self.o = dict(err=0.06, max_depth=3, classes=False, exceptions=True, closures=True, lists=True, loops=True)
        self.o.update(opts or {})
        self.n = 0
        self.scope = Scope()
        self.loop_depth = 0
        self.fn_depth = 0
        self.in_init = False
        self.protected = set()      # loop counters: never assigned by generated code
        self.classes = {}           # name -> dict(fields=[...], methods={name: arity}, statics={...}, super=name|None)
        self.cur_class = None

    def fresh(self, p="v"):
        self.n += 1
        return f"{p}{self.n}"

    def push(self, fn_boundary=False, kind=None):
        self.scope = Scope(self.scope, fn_boundary, kind)

    def pop(self):
        self.scope = self.scope.parent

    def vars_of(self, pred):
        return [k for k, t in self.scope.visible().items() if pred(t) and not k.startswith("$")]

    # ------------------------------------------------------------------ expressions
    def atom(self, want):
        r = self.r
        cands = self.vars_of(lambda t: t == want or (want == "any" and not t.startswith("fn") and not t.startswith("class")))
        if cands and r.random() < 0.45:
            return Var(r.choice(cands))
        if want == "num": return Num(r.choice(INTS))
        if want == "str": return Str(r.choice(STRS))
        if want == "bool": return Bool(r.random() < 0.5)
        if want == "nil": return Nil()
        if want == "list": return List([self.atom(r.choice(["num", "str"])) for _ in range(r.randint(0, 3))])
        return self.atom(r.choice(["num", "str", "bool", "nil"]))

    def expr(self, want="any", depth=None):
        r = self.r
        d = self.o["max_depth"] if depth is None else depth
        if want == "any":
            want = r.choice(["num", "num", "str", "bool", "nil", "any2"])
        if want == "any2":
            want = r.choice(["num", "str", "bool"])
        if r.random() < self.o["err"]:
            # ill-typed on purpose: the oracle decides which error comes out
            want2 = r.choice(["num", "str", "bool", "nil"])
            if d > 0:
                return Bin(r.choice(ARITH + CMP[:4]), self.expr(want, d - 1), self.expr(want2, d - 1))
        if d <= 0 or r.random() < 0.25:
            return self.atom(want)
        c = r.random()
        if want == "num":
            if c < 0.40:
                op = r.choice(["+", "-", "*"]) if r.random() < 0.85 else "/"
                return Bin(op, self.expr("num", d - 1), self.expr("num", d - 1))
            if c < 0.48: return Un("-", self.expr("num", d - 1))
            if c < 0.58: return Tern(self.expr("bool", d - 1), self.expr("num", d - 1), self.expr("num", d - 1))
            if c < 0.66:
                vs = [v for v in self.vars_of(lambda t: t == "num") if v not in self.protected]
                if vs:
                    v = r.choice(vs)
                    return Assign(v, self.expr("num", d - 1)) if r.random() < 0.5 else OpAssign(v, r.choice(["+=", "-=", "*="]), self.expr("num", d - 1))
            if c < 0.76:
                fs = self.vars_of(lambda t: t.startswith("fn"))
                if fs:
                    f = r.choice(fs)
                    ar = int(self.scope.lookup(f)[2:])
                    if r.random() < 0.05:
                        ar = max(0, ar + r.choice([-1, 1]))
                    return Call(Var(f), [self.expr("num", d - 1) for _ in range(ar)])
            if c < 0.82 and self.o["lists"]:
                return Invoke(self.expr("list", d - 1), "len", [])
            if c < 0.86 and self.o["lists"]:
                items = [self.expr("num", d - 1) for _ in range(r.randint(1, 3))]
                ix = r.randint(-len(items), len(items) - 1) if r.random() < 0.9 else len(items) + 1
                return Index(List(items), Num(ix))
            if c < 0.90: return Invoke(self.expr("str", d - 1), "len", [])
            if c < 0.95 and self.o["closures"]:
                p = self.fresh("p")
                self.push(True)
                self.scope.vars[p] = "num"
                saved = (self.loop_depth, self.fn_depth)
                self.loop_depth, self.fn_depth = 0, self.fn_depth + 1
                body = self.expr("num", d - 1)
                self.loop_depth, self.fn_depth = saved
                self.pop()
                return Call(Lambda([p], body), [self.expr("num", d - 1)])
            return self.atom("num")
        if want == "str":
            if c < 0.35: return Bin("+", self.expr("str", d - 1), self.expr("str", d - 1))
            if c < 0.50: return Tern(self.expr("bool", d - 1), self.expr("str", d - 1), self.expr("str", d - 1))
            if c < 0.65: return Invoke(self.expr(r.choice(["num", "bool", "str"]), d - 1), "str", [])
            if c < 0.80: return Interp([Str(r.choice(["", "x", "="])), self.expr(r.choice(["num", "str", "bool"]), d - 1), Str(r.choice(["", "y"]))])
            if c < 0.88: return Or(self.expr("nil", d - 1), self.expr("str", d - 1))
            return self.atom("str")
        if want == "bool":
            if c < 0.35: return Bin(r.choice(CMP), self.expr("num", d - 1), self.expr("num", d - 1))
            if c < 0.45: return Bin(r.choice(CMP), self.expr("str", d - 1), self.expr("str", d - 1))
            if c < 0.55: return Un("!", self.expr("any", d - 1))
            if c < 0.70: return And(self.expr("bool", d - 1), self.expr("bool", d - 1))
            if c < 0.85: return Or(self.expr("bool", d - 1), self.expr("bool", d - 1))
            if c < 0.92: return Bin(r.choice(["==", "!="]), self.expr("any", d - 1), self.expr("any", d - 1))
            return self.atom("bool")
        if want == "nil":
            if c < 0.3: return And(self.expr("nil", d - 1), self.expr("any", d - 1))
            return self.atom("nil")
        if want == "list":
            return List([self.expr(r.choice(["num", "str", "bool"]), d - 1) for _ in range(r.randint(0, 3))])
        return self.atom(want)

    # ------------------------------------------------------------------ statements
    def block(self, n_stmts, depth, kind=None):
        self.push(kind=kind)
        stmts = self.stmts(n_stmts, depth)
        self.pop()
        return Block(stmts)

    def stmts(self, n, depth):
        out = []
        for _ in range(n):
            out += self.stmt(depth)
        return out

    def stmt(self, depth):
        r = self.r
        c = r.random()
        if c < 0.22:
            t = r.choice(["num", "num", "str", "bool", "list"]) if self.o["lists"] else r.choice(["num", "num", "str", "bool"])
            name = self.fresh()
            e = self.expr(t)
            self.scope.vars[name] = t
            return [Let(name, e)]
        if c < 0.45:
            return [Print(*[self.expr("any") for _ in range(r.randint(1, 2))])]
        if c < 0.52:
            vs = [v for v in self.vars_of(lambda t: t in ("num", "str", "bool")) if v not in self.protected]
            if vs:
                v = r.choice(vs)
                return [ExprSt(Assign(v, self.expr(self.scope.lookup(v))))]
        if depth <= 0:
            return [Print(self.expr("any"))]
        if c < 0.64:
            cond = self.expr("bool" if r.random() < 0.8 else "any")
            t = self.block(r.randint(1, 2), depth - 1)
            e = self.block(r.randint(1, 2), depth - 1) if r.random() < 0.5 else None
            return [If(cond, t, e)]
        if c < 0.74 and self.o["loops"]:
            w = self.fresh("w")
            self.protected.add(w)
            self.scope.vars[w] = "num"
            lim = r.randint(1, 3)
            self.loop_depth += 1
            self.push()
            body = [ExprSt(Assign(w, Bin("+", Var(w), Num(1))))] + self.stmts(r.randint(1, 2), depth - 1) + self.loop_exit()
            self.pop()
            self.loop_depth -= 1
            return [Let(w, Num(0)), While(Bin("<", Var(w), Num(lim)), Block(body))]
        if c < 0.82 and self.o["loops"]:
            x = self.fresh("x")
            it = Invoke(Num(r.randint(0, 3)), "times", []) if r.random() < 0.6 or not self.o["lists"] else List([self.atom("num") for _ in range(r.randint(0, 3))])
            self.loop_depth += 1
            self.push()
            self.scope.vars[x] = "num"
            self.protected.add(x)
            body = self.stmts(r.randint(1, 2), depth - 1) + self.loop_exit()
            self.pop()
            self.loop_depth -= 1
            return [For(x, it, Block(body))]
        if c < 0.90 and self.o["closures"]:
            return self.fn_decl(depth)
        if c < 0.97 and self.o["exceptions"]:
            return self.try_stmt(depth)
        if self.fn_depth > 0 and r.random() < 0.5:
            return [Return(self.expr("num")) if not self.in_init else Return()]
        return [Print(self.expr("any"))]

    def loop_exit(self):
        r = self.r
        if self.loop_depth > 0 and r.random() < 0.4:
            cond = self.expr("bool", 1)
            return [If(cond, Block([r.choice([Break(), Continue()])]))]
        return []

    def fn_decl(self, depth, name=None, kind="fun", arity=None):
        r = self.r
        name = name or self.fresh("f")
        ar = r.randint(0, 3) if arity is None else arity
        params = [self.fresh("p") for _ in range(ar)]
        self.scope.vars[name] = f"fn{ar}"
        self.push(True)
        for p in params:
            self.scope.vars[p] = "num"
        saved = (self.loop_depth, self.fn_depth)
        self.loop_depth, self.fn_depth = 0, self.fn_depth + 1
        body = self.stmts(r.randint(1, 3), depth - 1)
        if r.random() < 0.8:
            body.append(Return(self.expr("num", 2)))
        self.loop_depth, self.fn_depth = saved
        self.pop()
        return [Fn(name, params, Block(body), kind)]

    def try_stmt(self, depth):
        r = self.r
        self.push()
        body = self.stmts(r.randint(1, 2), depth - 1)
        c = r.random()
        if c < 0.5:
            cls = r.choice(["Error", "RuntimeError", "TypeError", "IndexError"])
            body.append(Raise(Call(Var(cls), [Str(r.choice(["m", "boom"]))])))
        elif c < 0.7:
            body.append(ExprSt(Bin("+", Nil(), Num(1))))
        elif c < 0.8 and self.loop_depth > 0:
            body.append(r.choice([Break(), Continue()]))
        elif c < 0.9 and self.fn_depth > 0:
            body.append(Return(self.expr("num", 1)) if not self.in_init else Return())
        self.pop()
        catches = []
        for _ in range(r.randint(1, 2)):
            e = self.fresh("e")
            cls = r.choice(["Error", "RuntimeError", "TypeError", "IndexError", None])
            self.push()
            self.scope.vars[e] = "err"
            cb = self.stmts(r.randint(0, 2), depth - 1)
            if r.random() < 0.5:
                cb.insert(0, Print(Prop(Var(e), "message")))
            self.pop()
            catches.append(Catch(e, cls, Block(cb)))
        return [Try(Block(body), catches)]


def wrap_position(rnd, stmts_builder, position):
    """C01 (iv): put a statement list at module level, in a function, a method, an initialiser, a static method,
    or a block-bodied lambda.  stmts_builder(gen) -> list of statements."""
    g = stmts_builder
    return g


def program_c01(rnd, position=None, opts=None):
    g = Gen(rnd, opts)
    position = position or rnd.choice(["module", "fn", "method", "init", "static", "lambda"])
    pre = []
    # a few module level helpers every position can use
    pre += g.fn_decl(1, arity=rnd.randint(0, 2))
    if position == "module":
        return Module(pre + g.stmts(rnd.randint(3, 6), 3)), position
    g.push(True)
    saved = (g.loop_depth, g.fn_depth)
    g.loop_depth, g.fn_depth = 0, 1
    params = [g.fresh("p") for _ in range(rnd.randint(0, 2))]
    for p in params:
        g.scope.vars[p] = "num"
    g.in_init = position == "init"
    body = g.stmts(rnd.randint(3, 6), 3)
    g.in_init = False
    g.loop_depth, g.fn_depth = saved
    g.pop()
    args = [Num(rnd.choice(INTS)) for _ in params]
    if position == "fn":
        return Module(pre + [Fn("body", params, Block(body)), Print(Call(Var("body"), args))]), position
    if position == "lambda":
        return Module(pre + [Let("body", Lambda(params, Block(body))), Print(Call(Var("body"), args))]), position
    kind = {"method": "method", "init": "init", "static": "static"}[position]
    mname = "init" if position == "init" else "run"
    cls = Class("Host", None, [Fn(mname, params, Block(body), kind)])
    if position == "method":
        use = Print(Invoke(Call(Var("Host"), []), "run", args))
    elif position == "static":
        use = Print(Invoke(Var("Host"), "run", args))
    else:
        use = ExprSt(Call(Var("Host"), args))
    return Module(pre + [cls, use]), position
