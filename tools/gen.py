"""Seeded generators of well-scoped Laythe programs (ASTs, see lang.py) for the mode-G families.
Generation is only input selection: what each program must do is decided by TLC running Lang.tla."""
import random
from lang import *

INTS = [0, 1, 2, 3, 7, -1]
STRS = ["", "a", "b", "ab", "é"]
ARITH = ["+", "-", "*", "/"]
CMP = ["<", "<=", ">", ">=", "==", "!="]


class Scope:
    def __init__(self, parent=None, fn_boundary=False, kind=None):
        self.parent = parent
        self.vars = {}          # name -> type hint ("num","str","bool","nil","list","fn<k>","any","inst:<C>","class:<C>")
        self.fn_boundary = fn_boundary
        self.kind = kind

    def lookup(self, name):
        s = self
        while s:
            if name in s.vars:
                return s.vars[name]
            s = s.parent
        return None

    def visible(self):
        out = {}
        s = self
        while s:
            for k, v in s.vars.items():
                out.setdefault(k, v)
            s = s.parent
        return out


class Gen:
    def __init__(self, rnd, opts=None):
        self.r = rnd
        self.o = dict(err=0.025, max_depth=3, classes=False, exceptions=True, closures=True, lists=True, loops=True)
        self.o.update(opts or {})
        self.n = 0
        self.scope = Scope()
        self.loop_depth = 0
        self.fn_depth = 0
        self.in_init = False
        self.protected = set()      # loop counters: never assigned by generated code
        self.classes = {}           # name -> dict(fields=[...], methods={name: arity}, statics={...}, super=name|None)
        self.cur_class = None

    def fresh(self, p="v"):
        self.n += 1
        return f"{p}{self.n}"

    def push(self, fn_boundary=False, kind=None):
        self.scope = Scope(self.scope, fn_boundary, kind)

    def pop(self):
        self.scope = self.scope.parent

    def vars_of(self, pred):
        return [k for k, t in self.scope.visible().items() if pred(t) and not k.startswith("$")]

    # ------------------------------------------------------------------ expressions
    def atom(self, want):
        r = self.r
        cands = self.vars_of(lambda t: t == want or (want == "any" and not t.startswith("fn") and not t.startswith("class")))
        if cands and r.random() < 0.45:
            return Var(r.choice(cands))
        if want == "num": return Num(r.choice(INTS))
        if want == "str": return Str(r.choice(STRS))
        if want == "bool": return Bool(r.random() < 0.5)
        if want == "nil": return Nil()
        if want == "list": return List([self.atom(r.choice(["num", "str"])) for _ in range(r.randint(0, 3))])
        return self.atom(r.choice(["num", "str", "bool", "nil"]))

    def expr(self, want="any", depth=None):
        r = self.r
        d = self.o["max_depth"] if depth is None else depth
        if want == "any":
            want = r.choice(["num", "num", "str", "bool", "nil", "any2"])
        if want == "any2":
            want = r.choice(["num", "str", "bool"])
        if r.random() < self.o["err"]:
            # ill-typed on purpose: the oracle decides which error comes out
            want2 = r.choice(["num", "str", "bool", "nil"])
            if d > 0:
                return Bin(r.choice(ARITH + CMP[:4]), self.expr(want, d - 1), self.expr(want2, d - 1))
        if d <= 0 or r.random() < 0.25:
            return self.atom(want)
        c = r.random()
        if want == "num":
            if c < 0.40:
                op = r.choice(["+", "-", "*"]) if r.random() < 0.85 else "/"
                return Bin(op, self.expr("num", d - 1), self.expr("num", d - 1))
            if c < 0.48: return Un("-", self.expr("num", d - 1))
            if c < 0.58: return Tern(self.expr("bool", d - 1), self.expr("num", d - 1), self.expr("num", d - 1))
            if c < 0.66:
                vs = [v for v in self.vars_of(lambda t: t == "num") if v not in self.protected]
                if vs:
                    v = r.choice(vs)
                    return Assign(v, self.expr("num", d - 1)) if r.random() < 0.5 else OpAssign(v, r.choice(["+=", "-=", "*="]), self.expr("num", d - 1))
            if c < 0.76:
                fs = self.vars_of(lambda t: t.startswith("fn"))
                if fs:
                    f = r.choice(fs)
                    ar = int(self.scope.lookup(f)[2:])
                    if r.random() < 0.05:
                        ar = max(0, ar + r.choice([-1, 1]))
                    return Call(Var(f), [self.expr("num", d - 1) for _ in range(ar)])
            if c < 0.82 and self.o["lists"]:
                return Invoke(self.expr("list", d - 1), "len", [])
            if c < 0.86 and self.o["lists"]:
                items = [self.expr("num", d - 1) for _ in range(r.randint(1, 3))]
                ix = r.randint(-len(items), len(items) - 1) if r.random() < 0.9 else len(items) + 1
                return Index(List(items), Num(ix))
            if c < 0.90: return Invoke(self.expr("str", d - 1), "len", [])
            if c < 0.95 and self.o["closures"]:
                p = self.fresh("p")
                self.push(True)
                self.scope.vars[p] = "num"
                saved = (self.loop_depth, self.fn_depth)
                self.loop_depth, self.fn_depth = 0, self.fn_depth + 1
                body = self.expr("num", d - 1)
                self.loop_depth, self.fn_depth = saved
                self.pop()
                return Call(Lambda([p], body), [self.expr("num", d - 1)])
            return self.atom("num")
        if want == "str":
            if c < 0.35: return Bin("+", self.expr("str", d - 1), self.expr("str", d - 1))
            if c < 0.50: return Tern(self.expr("bool", d - 1), self.expr("str", d - 1), self.expr("str", d - 1))
            if c < 0.65: return Invoke(self.expr(r.choice(["num", "bool", "str"]), d - 1), "str", [])
            if c < 0.80: return Interp([Str(r.choice(["", "x", "="])), self.expr(r.choice(["num", "str", "bool"]), d - 1), Str(r.choice(["", "y"]))])
            if c < 0.88: return Or(self.expr("nil", d - 1), self.expr("str", d - 1))
            return self.atom("str")
        if want == "bool":
            if c < 0.35: return Bin(r.choice(CMP), self.expr("num", d - 1), self.expr("num", d - 1))
            if c < 0.45: return Bin(r.choice(CMP), self.expr("str", d - 1), self.expr("str", d - 1))
            if c < 0.55: return Un("!", self.expr("any", d - 1))
            if c < 0.70: return And(self.expr("bool", d - 1), self.expr("bool", d - 1))
            if c < 0.85: return Or(self.expr("bool", d - 1), self.expr("bool", d - 1))
            if c < 0.92: return Bin(r.choice(["==", "!="]), self.expr("any", d - 1), self.expr("any", d - 1))
            return self.atom("bool")
        if want == "nil":
            if c < 0.3: return And(self.expr("nil", d - 1), self.expr("any", d - 1))
            return self.atom("nil")
        if want == "list":
            return List([self.expr(r.choice(["num", "str", "bool"]), d - 1) for _ in range(r.randint(0, 3))])
        return self.atom(want)

    # ------------------------------------------------------------------ statements
    def block(self, n_stmts, depth, kind=None):
        self.push(kind=kind)
        stmts = self.stmts(n_stmts, depth)
        self.pop()
        return Block(stmts)

    def stmts(self, n, depth):
        out = []
        for _ in range(n):
            out += self.stmt(depth)
        return out

    def stmt(self, depth):
        r = self.r
        c = r.random()
        if c < 0.22:
            t = r.choice(["num", "num", "str", "bool", "list"]) if self.o["lists"] else r.choice(["num", "num", "str", "bool"])
            name = self.fresh()
            e = self.expr(t)
            self.scope.vars[name] = t
            return [Let(name, e)]
        if c < 0.45:
            return [Print(*[self.expr("any") for _ in range(r.randint(1, 2))])]
        if c < 0.52:
            vs = [v for v in self.vars_of(lambda t: t in ("num", "str", "bool")) if v not in self.protected]
            if vs:
                v = r.choice(vs)
                return [ExprSt(Assign(v, self.expr(self.scope.lookup(v))))]
        if depth <= 0:
            return [Print(self.expr("any"))]
        if c < 0.64:
            cond = self.expr("bool" if r.random() < 0.8 else "any")
            t = self.block(r.randint(1, 2), depth - 1)
            e = self.block(r.randint(1, 2), depth - 1) if r.random() < 0.5 else None
            return [If(cond, t, e)]
        if c < 0.74 and self.o["loops"]:
            w = self.fresh("w")
            self.protected.add(w)
            self.scope.vars[w] = "num"
            lim = r.randint(1, 3)
            self.loop_depth += 1
            self.push()
            body = [ExprSt(Assign(w, Bin("+", Var(w), Num(1))))] + self.stmts(r.randint(1, 2), depth - 1) + self.loop_exit()
            self.pop()
            self.loop_depth -= 1
            return [Let(w, Num(0)), While(Bin("<", Var(w), Num(lim)), Block(body))]
        if c < 0.82 and self.o["loops"]:
            x = self.fresh("x")
            it = Invoke(Num(r.randint(0, 3)), "times", []) if r.random() < 0.6 or not self.o["lists"] else List([self.atom("num") for _ in range(r.randint(0, 3))])
            self.loop_depth += 1
            self.push()
            self.scope.vars[x] = "num"
            self.protected.add(x)
            body = self.stmts(r.randint(1, 2), depth - 1) + self.loop_exit()
            self.pop()
            self.loop_depth -= 1
            return [For(x, it, Block(body))]
        if c < 0.90 and self.o["closures"]:
            return self.fn_decl(depth)
        if c < 0.97 and self.o["exceptions"]:
            return self.try_stmt(depth)
        if self.fn_depth > 0 and r.random() < 0.5:
            return [Return(self.expr("num")) if not self.in_init else Return()]
        return [Print(self.expr("any"))]

    def loop_exit(self):
        r = self.r
        if self.loop_depth > 0 and r.random() < 0.4:
            cond = self.expr("bool", 1)
            return [If(cond, Block([r.choice([Break(), Continue()])]))]
        return []

    def fn_decl(self, depth, name=None, kind="fun", arity=None):
        r = self.r
        name = name or self.fresh("f")
        ar = r.randint(0, 3) if arity is None else arity
        params = [self.fresh("p") for _ in range(ar)]
        self.push(True)
        for p in params:
            self.scope.vars[p] = "num"
        saved = (self.loop_depth, self.fn_depth)
        self.loop_depth, self.fn_depth = 0, self.fn_depth + 1
        body = self.stmts(r.randint(1, 3), depth - 1)
        if r.random() < 0.8:
            body.append(Return(self.expr("num", 2)))
        self.loop_depth, self.fn_depth = saved
        self.pop()
        self.scope.vars[name] = f"fn{ar}"      # registered after the body: generated functions never recurse
        return [Fn(name, params, Block(body), kind)]

    def try_stmt(self, depth):
        r = self.r
        self.push()
        body = self.stmts(r.randint(1, 2), depth - 1)
        c = r.random()
        if c < 0.5:
            cls = r.choice(["Error", "RuntimeError", "TypeError", "IndexError"])
            body.append(Raise(Call(Var(cls), [Str(r.choice(["m", "boom"]))])))
        elif c < 0.7:
            body.append(ExprSt(Bin("+", Nil(), Num(1))))
        elif c < 0.8 and self.loop_depth > 0:
            body.append(r.choice([Break(), Continue()]))
        elif c < 0.9 and self.fn_depth > 0:
            body.append(Return(self.expr("num", 1)) if not self.in_init else Return())
        self.pop()
        catches = []
        for _ in range(r.randint(1, 2)):
            e = self.fresh("e")
            cls = r.choice(["Error", "RuntimeError", "TypeError", "IndexError", None])
            self.push()
            self.scope.vars[e] = "err"
            cb = self.stmts(r.randint(0, 2), depth - 1)
            if r.random() < 0.5:
                cb.insert(0, Print(Prop(Var(e), "message")))
            self.pop()
            catches.append(Catch(e, cls, Block(cb)))
        return [Try(Block(body), catches)]


def wrap_position(rnd, stmts_builder, position):
    """C01 (iv): put a statement list at module level, in a function, a method, an initialiser, a static method,
    or a block-bodied lambda.  stmts_builder(gen) -> list of statements."""
    g = stmts_builder
    return g


def program_c01(rnd, position=None, opts=None):
    g = Gen(rnd, opts)
    position = position or rnd.choice(["module", "fn", "method", "init", "static", "lambda"])
    pre = []
    # a few module level helpers every position can use
    pre += g.fn_decl(1, arity=rnd.randint(0, 2))
    if position == "module":
        return Module(pre + g.stmts(rnd.randint(3, 6), 3)), position
    g.push(True)
    saved = (g.loop_depth, g.fn_depth)
    g.loop_depth, g.fn_depth = 0, 1
    params = [g.fresh("p") for _ in range(rnd.randint(0, 2))]
    for p in params:
        g.scope.vars[p] = "num"
    g.in_init = position == "init"
    body = g.stmts(rnd.randint(3, 6), 3)
    g.in_init = False
    g.loop_depth, g.fn_depth = saved
    g.pop()
    args = [Num(rnd.choice(INTS)) for _ in params]
    if position == "fn":
        return Module(pre + [Fn("body", params, Block(body)), Print(Call(Var("body"), args))]), position
    if position == "lambda":
        return Module(pre + [Let("body", Lambda(params, Block(body))), Print(Call(Var("body"), args))]), position
    kind = {"method": "method", "init": "init", "static": "static"}[position]
    mname = "init" if position == "init" else "run"
    cls = Class("Host", None, [Fn(mname, params, Block(body), kind)])
    if position == "method":
        use = Print(Invoke(Call(Var("Host"), []), "run", args))
    elif position == "static":
        use = Print(Invoke(Var("Host"), "run", args))
    else:
        use = ExprSt(Call(Var("Host"), args))
    return Module(pre + [cls, use]), position


# ======================================================================================================
# C02: scoping and closures
def program_c02(rnd):
    n = [0]

    def fresh(p):
        n[0] += 1
        return f"{p}{n[0]}"

    mod = [Let("cl", List([]))]
    modvars = []
    if rnd.random() < 0.7:
        mv = fresh("g")
        mod.append(Let(mv, Num(rnd.choice([0, 5]))))
        modvars.append(mv)

    def closure_over(vars_visible, tag):
        """a closure that prints and/or mutates a random subset of the visible variables"""
        vs = [v for v in vars_visible if rnd.random() < 0.6] or vars_visible[:1]
        body = []
        own = []
        if rnd.random() < 0.4:
            # the closure has a local of its own that a deeper closure captures
            o = fresh("o")
            own.append(o)
            body.append(Let(o, Num(rnd.choice([0, 4]))))
            body.append(Let(fresh("h"), Lambda([], Var(o))))
        for v in vs + own:
            if rnd.random() < 0.5:
                body.append(ExprSt(Assign(v, Bin("+", Var(v), Num(rnd.choice([1, 10]))))))
        if own and vs:
            body.append(ExprSt(Assign(own[0], Bin("+", Var(own[0]), Num(3)))))
            body.append(ExprSt(Var(vs[0])))
            body.append(ExprSt(Assign(vs[0], Bin("+", Var(vs[0]), Num(5)))))
            body.append(ExprSt(Var(own[0])))
        body.append(Print(Str(tag), *[Var(v) for v in vs + own]))
        if rnd.random() < 0.5:
            return Lambda([], Block(body))
        p = fresh("q")
        body.insert(0, ExprSt(Assign(vs[0], Bin("+", Var(vs[0]), Var(p)))))
        return Lambda([p], Block(body))

    def push_closure(vars_visible, tag):
        return ExprSt(Invoke(Var("cl"), "push", [closure_over(vars_visible, tag)]))

    def level(depth, visible, kind):
        """statements of a function body at nesting `depth`"""
        body = []
        mine = []
        for _ in range(rnd.randint(1, 2)):
            v = fresh("a")
            body.append(Let(v, Num(rnd.choice([1, 2, 3]))))
            mine.append(v)
        vis = visible + mine
        for _ in range(rnd.randint(1, 3)):
            c = rnd.random()
            if c < 0.35:
                body.append(push_closure(vis, f"c{depth}"))
            elif c < 0.42:
                v = rnd.choice(vis)
                body.append(ExprSt(Assign(v, Bin("+", Var(v), Num(100)))))
            elif c < 0.50:
                # store to one variable directly followed by a read of another (own/outer in any combination)
                v1, v2 = rnd.choice(vis), rnd.choice(vis)
                body.append(ExprSt(Assign(v1, Bin("+", Var(v1), Num(1)))))
                body.append(rnd.choice([ExprSt(Assign(v2, Bin("+", Var(v2), Num(2)))), ExprSt(Var(v2)), Let(fresh("z"), Var(v2))]))
                body.append(Print(Str("adj"), Var(v1), Var(v2)))
            elif c < 0.65:
                i = fresh("i")
                j = fresh("j")
                inner = [Let(j, Bin("*", Var(i), Num(10))), push_closure(vis + [i, j], f"L{depth}")]
                if rnd.random() < 0.3:
                    inner.append(ExprSt(Assign(j, Bin("+", Var(j), Num(1)))))
                body.append(For(i, Invoke(Num(rnd.randint(1, 3)), "times", []), Block(inner)))
            elif c < 0.75:
                w = fresh("w")
                k = fresh("k")
                inner = [ExprSt(Assign(w, Bin("+", Var(w), Num(1)))), Let(k, Bin("+", Var(w), Num(50))), push_closure(vis + [k], f"W{depth}")]
                body.append(Let(w, Num(0)))
                body.append(While(Bin("<", Var(w), Num(2)), Block(inner)))
            elif c < 0.85:
                e = fresh("e")
                m = fresh("m")
                body.append(Try(Block([Raise(Call(Var("Error"), [Str("boom" + str(depth))]))]),
                                [Catch(e, "Error", Block([Let(m, Prop(Var(e), "message")), push_closure(vis + [m], f"E{depth}"),
                                                           ExprSt(Invoke(Var("cl"), "push", [Lambda([], Block([Print(Prop(Var(e), "message"))]))]))]))]))
            elif depth < 3:
                f = fresh("f")
                p = fresh("p")
                inner = level(depth + 1, vis + [p], "fn")
                body.append(Fn(f, [p], Block(inner)))
                for _ in range(rnd.randint(1, 2)):
                    body.append(ExprSt(Call(Var(f), [Num(rnd.choice([1, 2, 7]))])))
            else:
                body.append(push_closure(vis, f"d{depth}"))
        body.append(Print(Str(f"end{depth}"), *[Var(v) for v in vis]))
        return body

    top = fresh("f")
    tp = fresh("p")
    use_class = rnd.random() < 0.3
    if use_class:
        # a method capturing self and its parameter
        fld = "n"
        mbody = [ExprSt(Invoke(Var("cl"), "push", [Lambda([], Block([ExprSt(PropOp(Self(), fld, "+=", Var(tp))), Print(Str("self"), Prop(Self(), fld), Var(tp))]))]))] + \
            level(1, modvars + [tp], "method")
        mod.append(Class("K", None, [Fn("init", [], Block([ExprSt(PropSet(Self(), fld, Num(0)))]), "init"),
                                     Fn("go", [tp], Block(mbody), "method")]))
        mod.append(Let("k", Call(Var("K"), [])))
        for _ in range(rnd.randint(1, 2)):
            mod.append(ExprSt(Invoke(Var("k"), "go", [Num(rnd.choice([1, 2]))])))
    else:
        mod.append(Fn(top, [tp], Block(level(1, modvars + [tp], "fn"))))
        for _ in range(rnd.randint(1, 2)):
            mod.append(ExprSt(Call(Var(top), [Num(rnd.choice([1, 2]))])))
    # run every closure, twice, interleaved with a write through the module variable
    i = fresh("i")
    for rounds in range(2):
        c = fresh("c")
        mod.append(For(c, Var("cl"), Block([
            Try(Block([ExprSt(Call(Var(c), []))]), [Catch(fresh("e"), "Error", Block([ExprSt(Call(Var(c), [Num(3)]))]))])])))
        for mv in modvars:
            mod.append(ExprSt(Assign(mv, Bin("+", Var(mv), Num(1000)))))
    return Module(mod)


# ======================================================================================================
# C03: classes
def program_c03(rnd):
    n = [0]

    def fresh(p):
        n[0] += 1
        return f"{p}{n[0]}"

    FIELDS = ["x", "y", "z"]
    names = ["A", "B", "C"][:rnd.randint(1, 3)]
    supers = {}
    info = {}          # class -> dict(fields, methods set, init_arity, statics)
    mod = []
    for idx, cname in enumerate(names):
        sup = None
        if idx > 0 and rnd.random() < 0.8:
            sup = rnd.choice(names[:idx])
        supers[cname] = sup
        inherited = dict(info[sup]) if sup else dict(fields=[], methods=set(), init_arity=None, statics=set())
        members = []
        fields = list(inherited["fields"])
        init_arity = inherited["init_arity"]
        if rnd.random() < 0.75:
            ar = rnd.randint(0, 2)
            ps = [fresh("p") for _ in range(ar)]
            body = []
            if sup and info[sup]["init_arity"] is not None and rnd.random() < 0.6:
                body.append(ExprSt(SuperInvoke("init", [Num(rnd.choice([1, 2])) for _ in range(info[sup]["init_arity"])])))
            assigned = []
            fl = FIELDS[:]
            rnd.shuffle(fl)
            for f in fl[:rnd.randint(0, 3)]:
                val = Var(rnd.choice(ps)) if ps and rnd.random() < 0.6 else Num(rnd.choice([0, 1, 5]))
                st = ExprSt(PropSet(Self(), f, val))
                if rnd.random() < 0.2:
                    st = If(Bool(rnd.random() < 0.5), Block([st]))
                body.append(st)
                assigned.append(f)
                if rnd.random() < 0.2:
                    body.append(ExprSt(PropOp(Self(), f, "+=", Num(1))) if not isinstance(val, dict) or True else None)
            if rnd.random() < 0.15:
                # a field holding a callable named like a method
                body.append(ExprSt(PropSet(Self(), "m", Lambda([], Str("field-" + cname)))))
                assigned.append("m")
            members.append(Fn("init", ps, Block(body), "init"))
            for f in assigned:
                if f not in fields:
                    fields.append(f)
            init_arity = ar
        methods = set(inherited["methods"])
        for mname in ["m", "n"]:
            if rnd.random() < 0.6:
                body = [Print(Str(f"{cname}.{mname}"))]
                if fields and rnd.random() < 0.7:
                    body.append(Print(*[Prop(Self(), f) for f in fields if f != "m"][:2] or [Nil()]))
                if mname in inherited["methods"] and rnd.random() < 0.6:
                    how = rnd.random()
                    if how < 0.5:
                        body.append(Print(Str("super->"), SuperInvoke(mname, [])))
                    elif how < 0.7:
                        # the super method as a value: kept in a local and called later / handed to a function as its last argument
                        body.append(Let(fresh("sg"), SuperGet(mname)))
                        body.append(Print(Str("super->"), Call(Var(f"sg{n[0]}"), [])))
                    elif how < 0.85:
                        body.append(Print(Str("super->"), Call(Lambda(["f"], Call(Var("f"), [])), [SuperGet(mname)])))
                    else:
                        body.append(Print(Str("super->"), Call(Lambda(["a", "f"], Bin("+", Var("a"), Call(Var("f"), []))), [Str("via:"), SuperGet(mname)])))
                if mname == "m" and ("n" in methods or "n" in inherited["methods"]) and rnd.random() < 0.4:
                    body.append(Print(Str("self.n->"), Invoke(Self(), "n", [])))
                body.append(Return(Str(f"r{cname}{mname}")))
                members.append(Fn(mname, [], Block(body), "method"))
                methods.add(mname)
        if rnd.random() < 0.5:
            # a method with a parameter: the shared site calls it without arguments (arity error, every time)
            members.append(Fn("p1", ["a"], Block([Print(Str(f"{cname}.p1"), Var("a")), Return(Var("a"))]), "method"))
            methods.add("p1")
        statics = set()
        if rnd.random() < 0.3:
            members.append(Fn("s", ["q"], Block([Return(Bin("+", Var("q"), Num(1)))]), "static"))
            statics.add("s")
        info[cname] = dict(fields=fields, methods=methods, init_arity=init_arity, statics=statics)
        mod.append(Class(cname, Var(sup) if sup else None, members))

    def new(cname):
        ar = info[cname]["init_arity"]
        return Call(Var(cname), [Num(rnd.choice([1, 2, 3])) for _ in range(ar or 0)])

    def guarded(stmts):
        e = fresh("e")
        return Try(Block(stmts), [Catch(e, "Error", Block([Print(Str("error"))]))])

    # call sites executed with a sequence of receiver classes
    mod.append(Fn("site", ["o"], Block([
        guarded([Print(Str("invoke m"), Invoke(Var("o"), "m", []))]),
        guarded([Let("bm", Prop(Var("o"), "n")), Print(Str("bound n"), Call(Var("bm"), []))]),
        guarded([Print(Str("x"), Prop(Var("o"), "x"))]),
        guarded([ExprSt(PropSet(Var("o"), "x", Num(9))), ExprSt(PropOp(Var("o"), "x", "+=", Num(1))), Print(Str("x'"), Prop(Var("o"), "x"))]),
        guarded([Print(Str("zz"), Prop(Var("o"), "zz"))]),
        guarded([ExprSt(PropSet(Var("o"), "zz", Num(1)))]),
        guarded([ExprSt(Invoke(Var("o"), "zz", []))]),
        guarded([Print(Str("p1()"), Invoke(Var("o"), "p1", []))]),
        guarded([Print(Str("p1(4)"), Invoke(Var("o"), "p1", [Num(4)]))]),
    ])))
    seq = [rnd.choice(names) for _ in range(rnd.randint(2, 4))]
    objs = []
    for c in seq:
        o = fresh("o")
        mod.append(guarded([Let(o, new(c)), ExprSt(Call(Var("site"), [Var(o)])), ExprSt(Call(Var("site"), [Var(o)]))]))
    for c in names:
        if "s" in info[c]["statics"]:
            mod.append(Print(Invoke(Var(c), "s", [Num(1)])))
            mod.append(guarded([Print(Invoke(new(c), "s", [Num(1)]))]))
    # an instance held in a field of another class with a different layout: writes through self.<field>.<name>
    holder_fields = rnd.sample(FIELDS, 2)
    inner_cls = rnd.choice(names)
    inner_fields = [f for f in info[inner_cls]["fields"] if f != "m"]
    if inner_fields:
        tgt = rnd.choice(inner_fields)
        hinit = [ExprSt(PropSet(Self(), holder_fields[0], Num(100))), ExprSt(PropSet(Self(), "part", new(inner_cls))),
                 ExprSt(PropSet(Self(), holder_fields[1], Num(200)))]
        if rnd.random() < 0.5:
            hinit.append(ExprSt(PropSet(Prop(Self(), "part"), tgt, Num(33))))
        upd = [ExprSt(PropSet(Prop(Self(), "part"), tgt, Var("v"))), ExprSt(PropOp(Prop(Self(), "part"), tgt, "+=", Num(1))),
               Print(Str("holder"), Prop(Self(), holder_fields[0]), Prop(Self(), holder_fields[1]), Prop(Prop(Self(), "part"), tgt))]
        mod.append(Class("Holder", None, [Fn("init", [], Block(hinit), "init"), Fn("update", ["v"], Block(upd), "method")]))
        mod.append(guarded([Let("hd", Call(Var("Holder"), [])), ExprSt(Invoke(Var("hd"), "update", [Num(42)])),
                            Print(*[Prop(Prop(Var("hd"), "part"), f) for f in inner_fields]),
                            ExprSt(Invoke(Var("hd"), "update", [Num(7)]))]))
    # a class declaration evaluated several times with different superclasses (super site sees several classes)
    with_m = [c for c in names if "m" in info[c]["methods"] and info[c]["init_arity"] in (None, 0)]
    if len(with_m) >= 1:
        mod.append(Fn("mixin", ["Base"], Block([
            Class("Loud", Var("Base"), [Fn("m", [], Block([Return(Bin("+", Str("loud:"), SuperInvoke("m", [])))]), "method")]),
            Return(Var("Loud"))])))
        order = [rnd.choice(with_m) for _ in range(3)]
        for c in order:
            mod.append(guarded([Print(Str("mixin " + c), Invoke(Call(Call(Var("mixin"), [Var(c)]), []), "m", []))]))
    # an initialiser that captures self
    mod.append(Class("Cap", None, [Fn("init", [], Block([ExprSt(PropSet(Self(), "v", Num(1))), ExprSt(PropSet(Self(), "get", Lambda([], Prop(Self(), "v"))))]), "init")]))
    mod.append(guarded([Let("cp", Call(Var("Cap"), [])), ExprSt(PropSet(Var("cp"), "v", Num(8))), Print(Str("cap"), Invoke(Var("cp"), "get", []), Prop(Var("cp"), "v"))]))
    # a bound method outlives its variable and stays bound to its receiver
    c = rnd.choice(names)
    if "m" in info[c]["methods"]:
        mod.append(guarded([Let("keep", Prop(new(c), "m")), Print(Str("kept"), Call(Var("keep"), []))]))
    return Module(mod)


# ======================================================================================================
# C04: exceptions
ERRS = ["Error", "RuntimeError", "TypeError", "IndexError"]


def program_c04(rnd):
    n = [0]

    def fresh(p):
        n[0] += 1
        return f"{p}{n[0]}"

    mod = []
    # user error classes
    mod.append(Class("MyErr", Var("Error"), []))
    mod.append(Class("SubErr", Var("MyErr"), []))
    mod.append(Class("OtherErr", Var("Error"), []))
    classes = ERRS + ["MyErr", "SubErr", "OtherErr"]

    def error_source(depth):
        """an expression statement that raises, `depth` calls below"""
        c = rnd.random()
        if c < 0.45:
            cls = rnd.choice(classes)
            st = Raise(Call(Var(cls), [Str("m-" + cls)]))
        elif c < 0.65:
            st = ExprSt(Bin("+", Nil(), Num(1)))
        elif c < 0.80:
            st = ExprSt(Index(List([Num(1)]), Num(5)))
        elif c < 0.90:
            st = ExprSt(Call(Num(3), []))
        else:
            st = ExprSt(Prop(Nil(), "nope"))
        for d in range(depth):
            f = fresh("thrower")
            mod.append(Fn(f, [], Block([Print(Str("in " + f)), st, Print(Str("unreachable"))])))
            st = ExprSt(Call(Var(f), []))
        return st

    def try_block(level, vars_in_scope, in_loop, in_fn):
        body = []
        loc = fresh("t")
        body.append(Let(loc, Num(rnd.choice([1, 2]))))
        c = rnd.random()
        if level < 2 and c < 0.3:
            body += try_block(level + 1, vars_in_scope + [loc], in_loop, in_fn)
        exit_kind = rnd.choice(["fall", "raise", "raise", "raise", "break", "continue", "return"])
        if exit_kind == "raise":
            body.append(error_source(rnd.randint(0, 2)))
        elif exit_kind in ("break", "continue") and in_loop:
            body.append(Break() if exit_kind == "break" else Continue())
        elif exit_kind == "return" and in_fn:
            c2 = rnd.random()
            if c2 < 0.4:
                body.append(Return(Num(77)))
            elif c2 < 0.6:
                body.append(Return(Bin("+", Nil(), Num(1))))           # the returned expression itself raises
            elif c2 < 0.8:
                body.append(Return(Index(List([Num(1)]), Num(3))))
            else:
                f = fresh("rthrower")
                mod.append(Fn(f, [], Block([Raise(Call(Var(rnd.choice(classes)), [Str("from " + f)]))])))
                body.append(Return(Call(Var(f), [])))
        catches = []
        kinds = rnd.choice([[None], ["Error"], [rnd.choice(classes)], [rnd.choice(classes), rnd.choice(classes)], ["OtherErr"], ["SubErr", "MyErr"]])
        for cls in kinds:
            e = fresh("e")
            cb = [Print(Str("caught " + (cls or "any")), Prop(Var(e), "message"))] + [Print(*[Var(v) for v in vars_in_scope])] if vars_in_scope else [Print(Str("caught " + (cls or "any")))]
            if rnd.random() < 0.2:
                cb.append(Raise(Call(Var("OtherErr"), [Str("from catch")])))
            catches.append(Catch(e, cls, Block(cb)))
        after = fresh("n")
        return [Try(Block(body), catches), Let(after, Str("new")), Print(Str("after"), Var(after), *[Var(v) for v in vars_in_scope])]

    placement = rnd.choice(["module", "fn", "fn", "method", "loop", "callback"])
    if placement == "module":
        v = fresh("v")
        mod.append(Let(v, Num(5)))
        mod += try_block(0, [v], False, False)
    elif placement in ("fn", "method", "callback"):
        ps = [fresh("p") for _ in range(rnd.randint(0, 3))]
        ls = [fresh("l") for _ in range(rnd.randint(0, 3))]
        body = [Let(l, Num(10 + i)) for i, l in enumerate(ls)]
        cap = fresh("cap")
        body.append(Let(cap, Num(42)))
        body.append(Let("getcap", Lambda([], Var(cap))))
        inner = try_block(0, ps + ls, False, True)
        if rnd.random() < 0.4:
            w = fresh("w")
            inner = [Let(w, Num(0)), While(Bin("<", Var(w), Num(2)), Block([ExprSt(Assign(w, Bin("+", Var(w), Num(1))))] + try_block(0, ps + ls + [w], True, True)))]
        body += inner
        body.append(Print(Str("cap"), Call(Var("getcap"), [])))
        body.append(Return(Num(1)))
        args = [Num(i + 1) for i in range(len(ps))]
        if placement == "fn":
            mod.append(Fn("host", ps, Block(body)))
            mod.append(Print(Str("result"), Call(Var("host"), args)))
        elif placement == "method":
            mod.append(Class("H", None, [Fn("run", ps, Block(body), "method")]))
            mod.append(Print(Str("result"), Invoke(Call(Var("H"), []), "run", args)))
        else:
            mod.append(Fn("host", ps, Block(body)))
            # called from inside another try, two frames up
            mod.append(Fn("outer", [], Block([Print(Str("result"), Call(Var("host"), args))])))
            mod.append(Try(Block([ExprSt(Call(Var("outer"), []))]), [Catch("oe", "Error", Block([Print(Str("outer caught"), Prop(Var("oe"), "message"))]))]))
    else:
        w = fresh("w")
        mod.append(Let(w, Num(0)))
        mod.append(While(Bin("<", Var(w), Num(3)), Block([ExprSt(Assign(w, Bin("+", Var(w), Num(1))))] + try_block(0, [w], True, False))))
    # the old handler must be gone: raise again at the end, caught by nothing or by a fresh handler
    if rnd.random() < 0.5:
        mod.append(Try(Block([Raise(Call(Var("Error"), [Str("late")]))]), [Catch("le", "Error", Block([Print(Str("late caught"), Prop(Var("le"), "message"))]))]))
    else:
        mod.append(Raise(Call(Var(rnd.choice(classes)), [Str("final")])))
    return Module(mod)


# ======================================================================================================
# C01 systematic sub-families
def special_atoms():
    return [("nil", Nil()), ("true", Bool(True)), ("false", Bool(False)), ("0", Num(0)), ("1", Num(1)), ("2", Num(2)),
            ("-1", Num(-1)), ("nan", Bin("/", Num(0), Num(0))), ("inf", Bin("/", Num(1), Num(0))),
            ("-inf", Bin("/", Num(-1), Num(0))), ("-0", Bin("*", Num(0), Num(-1))), ('""', Str("")), ('"a"', Str("a")),
            ('"b"', Str("b")), ('"ab"', Str("ab")), ("[1]", List([Num(1)])), ("fn", Lambda([], Num(1)))]


BINOPS = ["+", "-", "*", "/", "<", "<=", ">", ">=", "==", "!="]


def guarded_print(e, k):
    return Try(Block([Print(Str(f"#{k}"), e)]), [Catch(f"e{k}", "Error", Block([Print(Str(f"#{k} error"))]))])


def operator_table_programs(per_program=40):
    """exhaustive: every binary operator (and && ||, unary - !) over every pair of special atoms"""
    import copy
    atoms = special_atoms()
    exprs = []
    for op in BINOPS:
        for _, a in atoms:
            for _, b in atoms:
                exprs.append(Bin(op, copy.deepcopy(a), copy.deepcopy(b)))
    for _, a in atoms:
        exprs.append(Un("-", copy.deepcopy(a)))
        exprs.append(Un("!", copy.deepcopy(a)))
        for _, b in atoms[:8]:
            exprs.append(And(copy.deepcopy(a), copy.deepcopy(b)))
            exprs.append(Or(copy.deepcopy(a), copy.deepcopy(b)))
            exprs.append(Tern(copy.deepcopy(a), copy.deepcopy(b), Num(9)))
    progs = []
    for i in range(0, len(exprs), per_program):
        progs.append(Module([guarded_print(e, k) for k, e in enumerate(exprs[i:i + per_program])]))
    return progs


def parse_chain(tokens):
    """precedence climbing over [atom, op, atom, op, ...] with the documented table (all left associative);
    builds the AST an unparenthesised source text must mean"""
    prec = dict(PREC)
    prec["&&"] = prec["and"]
    prec["||"] = prec["or"]
    pos = [0]

    def atom():
        a = tokens[pos[0]]
        pos[0] += 1
        return a

    def climb(minp):
        left = atom()
        while pos[0] < len(tokens) and prec[tokens[pos[0]]] >= minp:
            op = tokens[pos[0]]
            pos[0] += 1
            right = climb(prec[op] + 1)
            left = And(left, right) if op == "&&" else Or(left, right) if op == "||" else Bin(op, left, right)
        return left

    return climb(0)


def precedence_programs(rnd, n_chains, per_program=30):
    """unparenthesised operator chains a op b op c (op d): all ordered operator pairs plus random longer chains"""
    import copy
    ops = BINOPS + ["&&", "||"]
    pools = [[Num(1), Num(2), Num(3), Num(0), Num(7)], [Bool(True), Bool(False), Nil(), Num(0), Num(1)],
             [Num(2), Bool(False), Num(3), Nil(), Bool(True)], [Str("a"), Str("b"), Str("ab"), Str(""), Str("a")]]
    chains = []
    for o1 in ops:
        for o2 in ops:
            for pool in pools[:3]:
                chains.append([copy.deepcopy(pool[0]), o1, copy.deepcopy(pool[1]), o2, copy.deepcopy(pool[2])])
    for _ in range(n_chains):
        k = rnd.randint(3, 5)
        pool = rnd.choice(pools)
        toks = []
        for i in range(k):
            toks.append(copy.deepcopy(rnd.choice(pool)))
            if i < k - 1:
                toks.append(rnd.choice(ops))
        chains.append(toks)
    progs = []
    for i in range(0, len(chains), per_program):
        progs.append(Module([guarded_print(parse_chain(c), k) for k, c in enumerate(chains[i:i + per_program])]))
    return progs


# ======================================================================================================
# C18: error reporting - call chains, raise sites, catch depths, exit codes
def program_c18(rnd):
    n = [0]

    def fresh(p):
        n[0] += 1
        return f"{p}{n[0]}"

    mod = [Class("MyErr", Var("Error"), [])]
    depth = rnd.randint(1, 4)
    kinds = [rnd.choice(["fn", "fn", "method", "init", "static", "lambda"]) for _ in range(depth)]
    raise_at = rnd.randint(1, depth)
    catch_at = rnd.choice([None, None] + list(range(0, raise_at + 1)))     # 0 = module level
    action = rnd.choice(["raise", "raise", "runtime", "native", "exit", "none"])
    wrap = rnd.random() < 0.3

    def fail_stmt():
        if action == "raise":
            return Raise(Call(Var(rnd.choice(["Error", "MyErr", "TypeError"])), [Str("boom")]))
        if action == "runtime":
            return ExprSt(Bin("-", Str("s"), Num(1)))
        if action == "native":
            return ExprSt(Index(List([Num(1), Num(2)]), Num(9)))
        if action == "exit":
            return ExprSt(Call(Var("exit"), [Num(rnd.choice([0, 1, 2, 255]))]))
        return Print(Str("fine"))

    def catch_wrap(stmts, level):
        e = fresh("e")
        cb = [Print(Str(f"caught@{level}"), Prop(Var(e), "message")), Print(Prop(Var(e), "backTrace")), Print(Bin("==", Prop(Var(e), "inner"), Nil()))]
        if wrap:
            cb.append(Raise(Call(Var("MyErr"), [Str("wrapped"), Var(e)])))
        return [Try(Block(stmts), [Catch(e, rnd.choice(["Error", None]), Block(cb))])]

    # build callables innermost first
    call_next = None       # expression calling the next (deeper) level
    for level in range(depth, 0, -1):
        kind = kinds[level - 1]
        body = [Print(Str(f"enter{level}"))]
        if rnd.random() < 0.5:
            body.append(Let(fresh("pad"), Num(level)))
        inner = []
        if level == raise_at:
            inner.append(fail_stmt())
        elif call_next is not None:
            inner.append(ExprSt(call_next))
        if level > raise_at:
            inner = [Print(Str("deep"))]
        if catch_at == level:
            inner = catch_wrap(inner, level)
        elif level <= raise_at and rnd.random() < 0.35:
            # a handler that does not match: the error passes through this frame
            ne = fresh("ne")
            inner = [Try(Block(inner), [Catch(ne, rnd.choice(["IndexError", "ValueError", "SyntaxError"]), Block([Print(Str("wrong handler"))]))])]
        body += inner
        body.append(Print(Str(f"leave{level}")))
        name = fresh("f")
        if kind == "fn":
            mod.append(Fn(name, [], Block(body)))
            call_next = Call(Var(name), [])
        elif kind == "lambda":
            mod.append(Let(name, Lambda([], Block(body))))
            call_next = Call(Var(name), [])
        else:
            cname = fresh("K")
            mname = "init" if kind == "init" else name
            mkind = {"method": "method", "init": "init", "static": "static"}[kind]
            mod.append(Class(cname, None, [Fn(mname, [], Block(body), mkind)]))
            if kind == "method":
                call_next = Invoke(Call(Var(cname), []), name, [])
            elif kind == "static":
                call_next = Invoke(Var(cname), name, [])
            else:
                call_next = Call(Var(cname), [])
        # the call may pass through a native that runs callbacks on its own call frame: that frame is part of
        # the back trace ("native:0 in each()"), and another such native may have run and returned before
        if level > 1 and rnd.random() < 0.35:
            via = rnd.choice(["each", "reduce", "all", "any", "sort", "eachmap"])
            q, q2 = fresh("q"), fresh("q")
            pre = []
            if rnd.random() < 0.5:
                # a different native with a frame runs to completion first (inside the callback)
                pre = [Let(fresh("sum"), Invoke(Invoke(List([Num(1), Num(2)]), "iter", []), "all", [Lambda([q2], Bool(True))]))] if rnd.random() < 0.5 else \
                      [Let(fresh("sum"), Invoke(Invoke(List([Num(1), Num(2)]), "iter", []), "reduce", [Num(0), Lambda([q2, fresh("q")], Num(0))]))]
            src = Invoke(List([Num(1)]), "iter", [])
            if via == "each": call_next = Invoke(src, "each", [Lambda([q], Block(pre + [ExprSt(call_next)]))])
            elif via == "eachmap":
                call_next = Invoke(Invoke(src, "map", [Lambda([q], Block(pre + [ExprSt(call_next), Return(Num(1))]))]), "each", [Lambda([q2], Num(0))])
            elif via == "reduce": call_next = Invoke(src, "reduce", [Num(0), Lambda([q, fresh("q")], Block(pre + [ExprSt(call_next), Return(Num(0))]))])
            elif via == "all": call_next = Invoke(src, "all", [Lambda([q], Block(pre + [ExprSt(call_next), Return(Bool(True))]))])
            elif via == "any": call_next = Invoke(src, "any", [Lambda([q], Block(pre + [ExprSt(call_next), Return(Bool(False))]))])
            else: call_next = Invoke(List([Num(2), Num(1)]), "sort", [Lambda([q, fresh("q")], Block(pre + [ExprSt(call_next), Return(Num(0))]))])
    top = [ExprSt(call_next)]
    if catch_at == 0:
        top = catch_wrap(top, 0)
    if wrap and catch_at is not None and rnd.random() < 0.6:
        e2 = fresh("e")
        top = [Try(Block(top), [Catch(e2, "MyErr", Block([Print(Str("outer"), Prop(Var(e2), "message"), Prop(Prop(Var(e2), "inner"), "message")),
                                                          Print(Prop(Var(e2), "backTrace"))]))])]
    mod += top
    mod.append(Print(Str("end")))
    return Module(mod)


# ======================================================================================================
# C17: modules
def program_c17(rnd):
    k = rnd.randint(1, 4)
    names = [f"m{i}" for i in range(1, k + 1)]
    mods = {}
    exports = {}
    for idx, name in enumerate(names):
        body = [Print(Str(f"run {name}"))]
        # imports of earlier modules (acyclic), before or after own definitions
        deps = [d for d in names[:idx] if rnd.random() < 0.5]
        imp = []
        for d in deps:
            form = rnd.choice(["whole", "as", "syms"])
            if form == "whole":
                imp.append((ImportWhole(d), [Print(Str(f"{name} sees"), Prop(Var(d), "v"), Invoke(Var(d), "inc", []))]))
            elif form == "as":
                al = f"al_{d}"
                imp.append((ImportWhole(d, al), [Print(Str(f"{name} sees"), Invoke(Var(al), "get", []))]))
            else:
                al = f"inc_{d}"
                imp.append((ImportSyms(d, [("inc", al), ("v", f"v_{d}")]), [Print(Str(f"{name} sees"), Call(Var(al), []), Var(f"v_{d}"))]))
        first = rnd.random() < 0.5
        if first:
            for st, use in imp:
                body.append(st)
                body += use
        body.append(Let("n", Num(idx * 100)))
        body.append(Let("secret", Str("s-" + name)))
        body.append(Export(Let("v", Num(idx + 1))))
        body.append(Export(Fn("inc", [], Block([ExprSt(Assign("n", Bin("+", Var("n"), Num(1)))), Return(Var("n"))]))))
        body.append(Export(Fn("get", [], Block([Return(Var("n"))]))))
        body.append(Fn("hidden", [], Block([Return(Str("hidden"))])))
        body.append(Export(Class("C", None, [Fn("who", [], Block([Return(Bin("+", Str(name + ".C "), Var("secret")))]), "method")])))
        if not first:
            for st, use in imp:
                body.append(st)
                body += use
        # rarely the body fails half way: the error ends the program (the importer does not continue)
        if rnd.random() < 0.06:
            body.insert(rnd.randint(1, len(body)), rnd.choice([Raise(Call(Var("Error"), [Str("in " + name)])), ExprSt(Prop(Nil(), "x")),
                                                              ExprSt(Index(List([Num(1)]), Num(5)))]))
        body.append(Print(Str(f"done {name}"), Var("n")))
        mods[name] = Module(body)
        exports[name] = ["v", "inc", "get", "C"]
    main = [Print(Str("main start"))]
    count = rnd.randint(1, 5)
    used = 0
    for _ in range(count):
        d = rnd.choice(names)
        used += 1
        form = rnd.choice(["whole", "as", "syms", "syms"])
        if form == "whole":
            al = d
            if any(st["k"] == "import" and st["fields"] and st["fields"][0] == al and st["s2"] != "syms" for st in main):
                form = "as"
            else:
                main.append(ImportWhole(d))
        if form == "as":
            al = f"a{used}_{d}"
            main.append(ImportWhole(d, al))
        if form in ("whole", "as"):
            main.append(Print(Str("v"), Prop(Var(al), "v"), Str("inc"), Invoke(Var(al), "inc", []), Str("get"), Invoke(Var(al), "get", [])))
            main.append(Print(Invoke(Call(Prop(Var(al), "C"), []), "who", [])))
            if rnd.random() < 0.3:
                e = f"e{used}"
                main.append(Try(Block([Print(Prop(Var(al), rnd.choice(["secret", "hidden", "n"])))]), [Catch(e, "Error", Block([Print(Str("private"))]))]))
        else:
            picks = rnd.sample(exports[d], rnd.randint(1, 3))
            pairs = [(p, f"{p}{used}_{d}") if rnd.random() < 0.7 else (p, f"{p}{used}x") for p in picks]
            main.append(ImportSyms(d, pairs))
            for p, al in pairs:
                if p in ("inc", "get"):
                    main.append(Print(Str(p), Call(Var(al), [])))
                elif p == "v":
                    main.append(Print(Str("v"), Var(al)))
                else:
                    main.append(Print(Invoke(Call(Var(al), []), "who", [])))
    # at most one failing import, last
    c = rnd.random()
    if c < 0.15:
        main.append(ImportSyms(rnd.choice(names), [(rnd.choice(["secret", "hidden", "n", "nothing"]), "bad")]))
    elif c < 0.30:
        main.append(ImportWhole("nope") if rnd.random() < 0.5 else ImportSyms("nope", [("v", "vv")]))
    elif c < 0.40:
        mods["broken"] = 'print("broken runs");\nexport let v = 1;\nlet = ;\n'
        main.append(ImportWhole("broken") if rnd.random() < 0.5 else ImportSyms("broken", [("v", "bv")]))
    main.append(Print(Str("main end")))
    return {"main": Module(main), "mods": mods}


# ======================================================================================================
# C11: built-in collections, strings, iterators
ERRCHAIN = ["IndexError", "KeyError", "TypeError", "ValueError", "PropertyError", "RuntimeError"]


def classify(stmts, k):
    """run stmts; print which documented error class came out"""
    catches = [Catch(f"e{k}_{i}", c, Block([Print(Str(f"#{k} {c}"))])) for i, c in enumerate(ERRCHAIN)]
    catches.append(Catch(f"e{k}_x", None, Block([Print(Str(f"#{k} other error"))])))
    return Try(Block(stmts), catches)


def program_c11(rnd):
    import copy
    mod = []
    k = [0]

    def nk():
        k[0] += 1
        return k[0]

    ELEMS = [Num(1), Num(2), Str("a"), Nil(), Num(3), Str("b")]

    def elem():
        return copy.deepcopy(rnd.choice(ELEMS))

    def idx(n):
        c = rnd.random()
        if c < 0.7:
            return Num(rnd.randint(-n - 1, n + 1))
        if c < 0.8:
            return Bin("/", Num(1), Num(2))
        if c < 0.9:
            return Str("x")
        return Nil()

    # ---- lists
    for _ in range(rnd.randint(1, 3)):
        n = rnd.randint(0, 4)
        l = f"l{nk()}"
        mod.append(Let(l, List([elem() for _ in range(n)])))
        cur = n
        for _ in range(rnd.randint(1, 5)):
            op = rnd.choice(["push", "pop", "insert", "remove", "get", "set", "opset", "has", "index", "slice", "rev", "clear", "len", "push3", "sort"])
            j = nk()
            L = Var(l)
            if op == "push": e = Invoke(L, "push", [elem()])
            elif op == "push3": e = Invoke(L, "push", [elem(), elem(), elem()])
            elif op == "pop": e = Invoke(L, "pop", [])
            elif op == "insert": e = Invoke(L, "insert", [idx(cur), elem()])
            elif op == "remove": e = Invoke(L, "remove", [idx(cur)])
            elif op == "get": e = Index(L, idx(cur))
            elif op == "set": e = IndexSet(L, idx(cur), elem())
            elif op == "opset": e = IndexOp(L, idx(cur), rnd.choice(["+=", "-=", "*="]), elem())
            elif op == "has": e = Invoke(L, "has", [elem()])
            elif op == "index": e = Invoke(L, "index", [elem()])
            elif op == "slice": e = Invoke(L, "slice", [idx(cur) for _ in range(rnd.randint(0, 2))])
            elif op == "rev": e = Invoke(L, "rev", [])
            elif op == "sort":
                # pure comparators (the order of comparisons is the implementation's own): by length of the
                # printed form, ascending or descending; constant; one that raises; one that returns no number
                a, b = f"p{nk()}", f"q{nk()}"
                key = lambda v: Invoke(Invoke(Var(v), "str", []), "len", [])
                body = rnd.choice([Bin("-", key(a), key(b)), Bin("-", key(b), key(a)), Num(0), Nil(), Str("x"),
                                   Bin("/", Num(0), Num(0)), Bin("-", Var(a), Var(b))])
                c = Lambda([a, b], body) if rnd.random() < 0.8 else Lambda([a, b], Block([Raise(Call(Var("ValueError"), [Str("cmp")]))]))
                e = Invoke(L, "sort", [c])
            elif op == "clear": e = Invoke(L, "clear", [])
            else: e = Invoke(L, "len", [])
            mod.append(classify([Print(Str(f"#{j} {op}"), e)], j))
            mod.append(Print(Str(f"#{j} now"), Var(l), Invoke(Var(l), "len", [])))
            cur = max(0, cur + {"push": 1, "push3": 3, "pop": -1, "insert": 1, "remove": -1, "clear": -99}.get(op, 0))
    # ---- tuples
    if rnd.random() < 0.6:
        n = rnd.randint(2, 4)
        t = f"t{nk()}"
        mod.append(Let(t, Tuple([elem() for _ in range(n)])))
        for _ in range(rnd.randint(1, 3)):
            j = nk()
            op = rnd.choice(["get", "has", "index", "slice", "len", "str"])
            T = Var(t)
            e = {"get": Index(T, idx(n)), "has": Invoke(T, "has", [elem()]), "index": Invoke(T, "index", [elem()]),
                 "slice": Invoke(T, "slice", [idx(n) for _ in range(rnd.randint(0, 2))]), "len": Invoke(T, "len", []), "str": Invoke(T, "str", [])}[op]
            mod.append(classify([Print(Str(f"#{j} t.{op}"), e)], j))
    # ---- maps
    if rnd.random() < 0.7:
        m = f"m{nk()}"
        KEYS = [Num(1), Str("a"), Num(0), Bool(True), Nil(), Str("b")]
        n = rnd.randint(0, 2)
        # distinct keys: which entry of a literal with a repeated key survives is not part of C11's
        # finite-map model (the VM inserts the pairs last to first)
        mod.append(Let(m, MapLit([(copy.deepcopy(k), elem()) for k in rnd.sample(KEYS, min(n, len(KEYS)))])))
        for _ in range(rnd.randint(2, 6)):
            j = nk()
            op = rnd.choice(["get", "iget", "set", "iset", "has", "insert", "remove", "len"])
            M = Var(m)
            key = copy.deepcopy(rnd.choice(KEYS))
            e = {"get": Invoke(M, "get", [key]), "iget": Index(M, key), "set": Invoke(M, "set", [key, elem()]), "iset": IndexSet(M, key, elem()),
                 "has": Invoke(M, "has", [key]), "insert": Invoke(M, "insert", [key, elem()]), "remove": Invoke(M, "remove", [key]),
                 "len": Invoke(M, "len", [])}[op]
            mod.append(classify([Print(Str(f"#{j} m.{op}"), e, Invoke(Var(m), "len", []))], j))
    # ---- strings
    for _ in range(rnd.randint(1, 2)):
        base = rnd.choice(["", "a", "ab", "aé", "日本", "a b", " ab ", "a,b,,c", "AbC"])
        s = f"s{nk()}"
        mod.append(Let(s, Str(base)))
        n = len(base)
        for _ in range(rnd.randint(2, 5)):
            j = nk()
            op = rnd.choice(["len", "get", "slice", "has", "split", "up", "down", "trim", "trimStart", "trimEnd", "iter"])
            S_ = Var(s)
            e = {"len": Invoke(S_, "len", []), "get": Index(S_, idx(n)), "slice": Invoke(S_, "slice", [idx(n) for _ in range(rnd.randint(0, 2))]),
                 "has": Invoke(S_, "has", [Str(rnd.choice(["a", "b", "é", "", "ab", "本"]))]),
                 "split": Invoke(Invoke(S_, "split", [Str(rnd.choice([",", " ", "b", "ab"]))]), "list", []),
                 "up": Invoke(S_, "upCase", []), "down": Invoke(S_, "downCase", []), "trim": Invoke(S_, "trim", []),
                 "trimStart": Invoke(S_, "trimStart", []), "trimEnd": Invoke(S_, "trimEnd", []),
                 "iter": Invoke(Invoke(S_, "iter", []), "list", [])}[op]
            mod.append(classify([Print(Str(f"#{j} s.{op}"), List([e]))], j))
    # ---- iterator pipelines
    mod.append(Let("seen", List([])))
    for _ in range(rnd.randint(2, 5)):
        j = nk()
        until_args = rnd.choice([[Num(rnd.randint(-1, 6))], [Num(rnd.randint(2, 9)), Num(rnd.choice([1, 2, 3, 0, -1]))], [Str("x")], []])
        srcs = [Invoke(List([Num(1), Num(2), Num(3), Num(4)]), "iter", []), Invoke(Num(rnd.randint(0, 5)), "times", []),
                Invoke(Str("abc"), "iter", []), Invoke(Str("x,y,z"), "split", [Str(",")]), Invoke(List([]), "iter", []),
                Invoke(Tuple([Num(5), Num(6)]), "iter", []), Invoke(Num(rnd.randint(-2, 3)), "until", until_args)]
        numeric = rnd.random() < 0.7
        it = copy.deepcopy(srcs[rnd.choice([0, 1, 4, 5, 6, 6])] if numeric else rnd.choice(srcs))

        def cb(kind):
            x = f"x{nk()}"
            if kind == "id": return Lambda([x], Var(x))
            if kind == "inc": return Lambda([x], Bin("+", Var(x), Num(1)))
            if kind == "big": return Lambda([x], Bin(">", Var(x), Num(1)))
            if kind == "log": return Lambda([x], Block([Print(Str(f"#{j} cb"), Var(x)), Return(Var(x))]))
            if kind == "logbig": return Lambda([x], Block([Print(Str(f"#{j} test"), Var(x)), Return(Bin(">", Var(x), Num(1)))]))
            if kind == "raise": return Lambda([x], Block([If(Bin("==", Var(x), Num(2)), Block([Raise(Call(Var("ValueError"), [Str("cb")]))])), Return(Var(x))]))
            if kind == "mut": return Lambda([x], Block([ExprSt(Invoke(Var("seen"), "push", [Var(x)])), Return(Var(x))]))
            return Lambda([x], Var(x))

        for _ in range(rnd.randint(0, 3)):
            a = rnd.choice(["map", "filter", "take", "skip", "zip", "chain"])
            if a == "map": it = Invoke(it, "map", [cb(rnd.choice(["id", "inc", "log", "raise", "mut"] if numeric else ["id", "log", "mut"]))])
            elif a == "filter": it = Invoke(it, "filter", [cb(rnd.choice(["big", "logbig"] if numeric else ["id", "log"]))])
            elif a == "take": it = Invoke(it, "take", [Num(rnd.choice([0, 1, 2, 5]))])
            elif a == "skip": it = Invoke(it, "skip", [Num(rnd.choice([0, 1, 2, 5]))])
            elif a == "zip": it = Invoke(it, "zip", [Invoke(List([Str("p"), Str("q"), Str("r")]), "iter", [])])
            else: it = Invoke(it, "chain", [Invoke(List([Num(7), Num(8)]), "iter", [])])
        c = rnd.choice(["list", "into", "reduce", "each", "all", "any", "first", "last", "for", "next"])
        if c == "list": e = [Print(Str(f"#{j} list"), Invoke(it, "list", []))]
        elif c == "into": e = [Print(Str(f"#{j} into"), Invoke(it, "into", [Prop(Var("List"), "collect")]))]
        elif c == "reduce":
            a, b = f"a{nk()}", f"b{nk()}"
            e = [Print(Str(f"#{j} reduce"), Invoke(it, "reduce", [List([]), Lambda([a, b], Block([ExprSt(Invoke(Var(a), "push", [Var(b)])), Return(Var(a))]))]))]
        elif c == "each": e = [Print(Str(f"#{j} each"), Invoke(it, "each", [cb("log")]))]
        elif c == "all": e = [Print(Str(f"#{j} all"), Invoke(it, "all", [cb("logbig" if numeric else "log")]))]
        elif c == "any": e = [Print(Str(f"#{j} any"), Invoke(it, "any", [cb("logbig" if numeric else "log")]))]
        elif c == "first": e = [Print(Str(f"#{j} first"), Invoke(it, "first", []))]
        elif c == "last": e = [Print(Str(f"#{j} last"), Invoke(it, "last", []))]
        elif c == "next":
            v = f"it{nk()}"
            # current is only defined after a next that returned true
            step = lambda: Tern(Invoke(Var(v), "next", []), Invoke(Var(v), "current", []), Str("end"))
            e = [Let(v, it), Print(Str(f"#{j} next"), step(), step(), step())]
        else:
            v = f"v{nk()}"
            e = [For(v, it, Block([Print(Str(f"#{j} for"), Var(v)), If(Bin("==", Var(v), Num(3)), Block([Break()]))]))]
        mod.append(classify(e, j))
    mod.append(Print(Str("seen"), Var("seen")))
    return Module(mod)


# ======================================================================================================
# C14: special values as operands of ==, list members and map keys (the places where the two value
# representations implement equality and hashing separately)
def program_c14_keys(rnd):
    # no fractional values here: Lang.tla carries a non-integer as one abstract numeral and cannot compare it
    import copy
    SPECIAL = [Bin("/", Num(0), Num(0)), Bin("*", Num(0), Num(-1)), Num(0), Bin("/", Num(1), Num(0)), Bin("/", Num(-1), Num(0)),
               Num(1), Num(-1), Str("a"), Str(""), Nil(), Bool(True), Bool(False),
               Bin("-", Bin("/", Num(1), Num(0)), Bin("/", Num(1), Num(0))), Bin("*", Num(-1), Num(0)), Num(2)]
    mod = []
    n = rnd.randint(3, 6)
    names = []
    for i in range(n):
        mod.append(Let(f"v{i}", copy.deepcopy(rnd.choice(SPECIAL))))
        names.append(f"v{i}")
    pick = lambda: Var(rnd.choice(names))
    mod.append(Let("l", List([pick() for _ in range(rnd.randint(1, 4))])))
    mod.append(Let("t", Tuple([pick() for _ in range(rnd.randint(2, 3))])))
    mod.append(Let("m", MapLit([])))
    k = 0
    for _ in range(rnd.randint(6, 14)):
        k += 1
        c = rnd.choice(["eq", "ne", "lhas", "lindex", "thas", "tindex", "mset", "mget", "mhas", "mremove", "minsert", "miset", "self"])
        a, b = pick(), pick()
        if c == "eq": e = Bin("==", a, b)
        elif c == "ne": e = Bin("!=", a, b)
        elif c == "self": e = Bin("==", a, copy.deepcopy(a))
        elif c == "lhas": e = Invoke(Var("l"), "has", [a])
        elif c == "lindex": e = Invoke(Var("l"), "index", [a])
        elif c == "thas": e = Invoke(Var("t"), "has", [a])
        elif c == "tindex": e = Invoke(Var("t"), "index", [a])
        elif c == "mset": e = Invoke(Var("m"), "set", [a, Num(k)])
        elif c == "miset": e = IndexSet(Var("m"), a, Num(k))
        elif c == "minsert": e = Invoke(Var("m"), "insert", [a, Num(k)])
        elif c == "mget": e = Invoke(Var("m"), "get", [a])
        elif c == "mhas": e = Invoke(Var("m"), "has", [a])
        else: e = Invoke(Var("m"), "remove", [a])
        mod.append(classify([Print(Str(f"#{k} {c}"), e, Invoke(Var("m"), "len", []))], k))
    return Module(mod)


# ======================================================================================================
# C10: object identity under mutation.  Subjects (lists, a map, an instance) are reached through aliases
# kept in variables, list / tuple / map elements, fields, nested lists and closures; a history of mutations
# through randomly chosen aliases is interleaved with ==, map lookups keyed by the subject, has/index and
# prints through other aliases.  Everything runs either at module level or inside a function (locals).
def program_c10(rnd):
    import copy
    pre = [
        Class("Box", None, [Fn("init", ["v"], Block([ExprSt(PropSet(Self(), "v", Var("v"))), ExprSt(PropSet(Self(), "n", Num(0)))]), kind="init"),
                            Fn("fill", ["k"], Block([Let("i", Num(0)), While(Bin("<", Var("i"), Var("k")), Block([
                                ExprSt(Invoke(Prop(Self(), "v"), "push", [Var("i")])), ExprSt(Assign("i", Bin("+", Var("i"), Num(1))))])),
                                Return(Prop(Self(), "v"))]), kind="method")]),
        Fn("grow", ["x", "v"], Block([ExprSt(Invoke(Var("x"), "push", [Var("v")])), Return(Var("x"))])),
        Fn("growN", ["x", "k"], Block([Let("i", Num(0)), While(Bin("<", Var("i"), Var("k")), Block([
            ExprSt(Invoke(Var("x"), "push", [Var("i")])), ExprSt(Assign("i", Bin("+", Var("i"), Num(1))))])), Return(Var("x"))])),
    ]
    body = []
    nsub = rnd.randint(1, 3)
    kinds, lens, paths = [], [], []
    for i in range(nsub):
        kind = rnd.choice(["list", "list", "list", "map", "box"])
        kinds.append(kind)
        n = rnd.randint(0, 4)
        lens.append(n)
        if kind == "list": init = List([Num(10 * i + j) for j in range(n)])
        elif kind == "map": init = MapLit([])
        else: init = Call(Var("Box"), [List([])])
        body.append(Let(f"a{i}", init))
        ps = [Var(f"a{i}")]
        # aliases in other places
        if rnd.random() < 0.7:
            body.append(Let(f"b{i}", Var(f"a{i}"))); ps.append(Var(f"b{i}"))
        if rnd.random() < 0.7:
            body.append(Let(f"h{i}", List([Num(-1), Var(f"a{i}")]))); ps.append(Index(Var(f"h{i}"), Num(1)))
        if rnd.random() < 0.5:
            body.append(Let(f"n{i}", List([List([Var(f"a{i}")])]))); ps.append(Index(Index(Var(f"n{i}"), Num(0)), Num(0)))
        if rnd.random() < 0.5:
            body.append(Let(f"t{i}", Tuple([Var(f"a{i}"), Num(0)]))); ps.append(Index(Var(f"t{i}"), Num(0)))
        if rnd.random() < 0.5:
            body.append(Let(f"x{i}", Call(Var("Box"), [Var(f"a{i}")]))); ps.append(Prop(Var(f"x{i}"), "v"))
        if rnd.random() < 0.5:
            body.append(Let(f"m{i}", MapLit([(Str("k"), Var(f"a{i}"))]))); ps.append(Index(Var(f"m{i}"), Str("k")))
        if rnd.random() < 0.5:
            body.append(Let(f"g{i}", Lambda([], Var(f"a{i}")))); ps.append(Call(Var(f"g{i}"), []))
        paths.append(ps)
    # the subjects as map keys and as members of a list and a tuple
    body.append(Let("km", MapLit([])))
    for i in range(nsub):
        body.append(ExprSt(IndexSet(Var("km"), copy.deepcopy(rnd.choice(paths[i])), Str(f"entry{i}"))))
    body.append(Let("members", List([copy.deepcopy(rnd.choice(paths[i])) for i in range(nsub)])))
    body.append(Let("tmembers", Tuple([copy.deepcopy(rnd.choice(paths[i])) for i in range(nsub)] + [Nil()])))
    P = lambda i: copy.deepcopy(rnd.choice(paths[i]))
    k = 0
    for _ in range(rnd.randint(4, 10)):
        k += 1
        i = rnd.randrange(nsub)
        p = P(i)
        if kinds[i] == "list":
            ops = ["push", "push3", "grow", "growN", "insert"] + (["remove", "pop", "set", "clear"] if lens[i] > 0 else [])
            op = rnd.choice(ops)
            if op == "push": st = ExprSt(Invoke(p, "push", [Num(100 + k)])); lens[i] += 1
            elif op == "push3": st = ExprSt(Invoke(p, "push", [Num(100 + k), Num(200 + k), Num(300 + k)])); lens[i] += 3
            elif op == "grow": st = Print(Str(f"#{k} grow"), Bin("==", Call(Var("grow"), [p, Num(100 + k)]), P(i))); lens[i] += 1
            elif op == "growN":
                c = rnd.choice([1, 2, 5, 9]); st = Print(Str(f"#{k} growN"), Bin("==", Call(Var("growN"), [p, Num(c)]), P(i))); lens[i] += c
            elif op == "insert": st = ExprSt(Invoke(p, "insert", [Num(rnd.randint(0, lens[i])), Num(100 + k)])); lens[i] += 1
            elif op == "remove": st = ExprSt(Invoke(p, "remove", [Num(rnd.randrange(lens[i]))])); lens[i] -= 1
            elif op == "pop": st = ExprSt(Invoke(p, "pop", [])); lens[i] -= 1
            elif op == "set": st = ExprSt(IndexSet(p, Num(rnd.randrange(lens[i])), Num(100 + k)))
            else: st = ExprSt(Invoke(p, "clear", [])); lens[i] = 0
        elif kinds[i] == "map":
            op = rnd.choice(["mset", "mset", "mremove"])
            key = rnd.choice([Num(1), Str("a"), Num(2), Str("b"), Num(3), Num(4), Num(5), Num(6)])
            if op == "mset" or lens[i] == 0: st = ExprSt(IndexSet(p, key, Num(100 + k))); lens[i] = 1
            else: st = classify([ExprSt(Invoke(p, "remove", [key]))], k)
        else:
            op = rnd.choice(["field", "fill", "fieldpush"])
            if op == "field": st = ExprSt(PropSet(p, "n", Num(k)))
            elif op == "fill": st = Print(Str(f"#{k} fill"), Bin("==", Invoke(p, "fill", [Num(rnd.choice([1, 3, 6]))]), Prop(P(i), "v")))
            else: st = ExprSt(Invoke(Prop(p, "v"), "push", [Num(k)]))
        body.append(st)
        # observations
        for _ in range(rnd.randint(1, 3)):
            c = rnd.choice(["eq", "eq", "key", "has", "see", "cross"])
            j = rnd.randrange(nsub)
            if c == "eq": body.append(Print(Str(f"#{k} eq{j}"), Bin("==", P(j), P(j)), Bin("!=", P(j), P(j))))
            elif c == "cross":
                j2 = rnd.randrange(nsub)
                body.append(Print(Str(f"#{k} cross{j}{j2}"), Bin("==", P(j), P(j2))))
            elif c == "key":
                body.append(Print(Str(f"#{k} key{j}"), Invoke(Var("km"), "has", [P(j)]), Invoke(Var("km"), "get", [P(j)]), Invoke(Var("km"), "len", [])))
                if rnd.random() < 0.3:
                    body.append(classify([Print(Str(f"#{k} idx{j}"), Index(Var("km"), P(j)))], 1000 + k))
                if rnd.random() < 0.2:
                    body.append(ExprSt(IndexSet(Var("km"), P(j), Str(f"again{j}"))))
            elif c == "has":
                body.append(Print(Str(f"#{k} has{j}"), Invoke(Var("members"), "has", [P(j)]), Invoke(Var("members"), "index", [P(j)]),
                                  Invoke(Var("tmembers"), "has", [P(j)]), Invoke(Var("tmembers"), "index", [P(j)])))
            else:
                if kinds[j] == "list": body.append(Print(Str(f"#{k} see{j}"), P(j), Invoke(P(j), "len", [])))
                elif kinds[j] == "map": body.append(Print(Str(f"#{k} see{j}"), Invoke(P(j), "len", [])))
                else: body.append(Print(Str(f"#{k} see{j}"), Prop(P(j), "n"), Prop(P(j), "v")))
    body.append(Print(Str("end"), Invoke(Var("km"), "len", [])))
    if rnd.random() < 0.5:
        return Module(pre + body)
    return Module(pre + [Fn("main", [], Block(body)), ExprSt(Call(Var("main"), []))])


# ======================================================================================================
# C01: compound assignment through an index whose index expression has an effect (known finding KF-C01-index-twice)
def index_twice_programs():
    from lang import IndexOp
    out = []
    counter = [Let("n", Num(0)), Fn("i", [], Block([ExprSt(Assign("n", Bin("+", Var("n"), Num(1)))), Return(Num(0))]))]
    out.append(Module([Let("l", List([Num(1), Num(2)]))] + counter + [ExprSt(IndexOp(Var("l"), Call(Var("i"), []), "+=", Num(5))), Print(Var("n"), Var("l"))]))
    out.append(Module([Let("m", MapLit([(Str("a"), Num(1))])), Fn("k", [], Block([Print(Str("k")), Return(Str("a"))])),
                       ExprSt(IndexOp(Var("m"), Call(Var("k"), []), "*=", Num(3))), Print(Index(Var("m"), Str("a")))]))
    moving = [Let("n", Num(-1)), Fn("i", [], Block([ExprSt(Assign("n", Bin("+", Var("n"), Num(1)))), Return(Var("n"))]))]
    out.append(Module([Let("l", List([Num(1), Num(2)]))] + moving + [ExprSt(IndexOp(Var("l"), Call(Var("i"), []), "+=", Num(5))), Print(Var("l"))]))
    return out


# ======================================================================================================
# sources of every family, as plain text: a corpus of compiler input for the checks that judge compiled code
# (C06 bytecode verifier, C12 optimiser equivalence, C15 mutations)
def family_sources(rnd, n):
    import lang
    fams = [lambda: program_c01(rnd)[0], lambda: program_c02(rnd), lambda: program_c03(rnd), lambda: program_c04(rnd),
            lambda: program_c11(rnd), lambda: program_c18(rnd), lambda: program_c10(rnd), lambda: program_c14_keys(rnd)]
    out = []
    for i in range(n):
        ast = fams[i % len(fams)]()
        layout = ("canon", "min", "pad", "typed", "alt")[i % 5]
        lang.flatten(ast)          # node ids decide where the typed layout puts annotations
        out.append((f"gen:{i}", lang.to_source(ast, layout)[0]))
    return out
