"""Shared plumbing for the /verif checks: build the harness, run case batches with crash/hang
isolation, run TLC, write evidence, known findings, verdict bookkeeping."""
import json, os, re, subprocess, sys, time, threading, queue, shutil, hashlib

VERIF = os.path.dirname(os.path.dirname(os.path.abspath(__file__)))
HARNESS = os.path.join(VERIF, "harness")
SPEC = os.path.join(VERIF, "spec")
WORK = os.path.join(VERIF, "work")
EVID = os.path.join(VERIF, "evidence")
REPLAY = os.path.join(EVID, "replay")
NCPU = os.cpu_count() or 4


class ToolError(Exception):
    pass


def log(*a):
    print(*a, file=sys.stderr, flush=True)


def seed():
    try:
        return int(os.environ.get("VERIF_SEED", "1"))
    except ValueError:
        return 1


# ----------------------------------------------------------------------------------------------
# harness build

_built = {}


def build_harness(profile="dev", nan_boxing=False, gc_stress=False):
    """cargo build the harness against /repo's current tree; returns the binary path.
    gc_stress: laythe_core's own stress feature - a full collection at every allocation AND at every reserve that
    does not grow (so at every call's stack check, whatever the stack's fill level)."""
    key = (profile, nan_boxing, gc_stress)
    if key in _built:
        return _built[key]
    cmd = ["cargo", "build", "--offline", "-q"]
    if profile != "dev":
        cmd += ["--profile", profile]
    tdir = "target-gs" if gc_stress else "target-nb" if nan_boxing else "target"
    if nan_boxing:
        cmd += ["--features", "nan_boxing"]
    if gc_stress:
        cmd += ["--features", "gc_stress"]
    env = dict(os.environ, CARGO_TARGET_DIR=os.path.join(HARNESS, tdir), CARGO_NET_OFFLINE="true",
               RUSTFLAGS=os.environ.get("RUSTFLAGS", "") + " -Awarnings")
    t0 = time.time()
    p = subprocess.run(cmd, cwd=HARNESS, env=env, stdout=subprocess.PIPE, stderr=subprocess.STDOUT, text=True)
    if p.returncode != 0:
        log(p.stdout[-4000:])
        raise ToolError("harness build failed")
    sub = "debug" if profile == "dev" else profile
    path = os.path.join(HARNESS, tdir, sub, "lvh")
    log(f"[build] {profile}{' nan_boxing' if nan_boxing else ''}{' gc_stress' if gc_stress else ''} {time.time()-t0:.1f}s")
    _built[key] = path
    return path


# ----------------------------------------------------------------------------------------------
# batch runner with crash / hang isolation

def _run_chunk(binary, subcmd, cases, per_case_timeout, out, env=None):
    """Run cases sequentially in one child; on crash or hang record it for the case in flight and
    restart the child with the remaining cases."""
    i = 0
    while i < len(cases):
        proc = subprocess.Popen([binary, subcmd], stdin=subprocess.PIPE, stdout=subprocess.PIPE,
                                stderr=subprocess.PIPE, text=True, bufsize=1, env=env)
        q = queue.Queue()

        def reader(p=proc, q=q):
            for line in p.stdout:
                q.put(line)
            q.put(None)

        th = threading.Thread(target=reader, daemon=True)
        th.start()
        errbuf = []

        def ereader(p=proc):
            for line in p.stderr:
                errbuf.append(line)
                if len(errbuf) > 50:
                    del errbuf[0]

        threading.Thread(target=ereader, daemon=True).start()

        def feeder(p=proc, start=i):
            try:
                for c in cases[start:]:
                    p.stdin.write(json.dumps(c) + "\n")
                p.stdin.close()
            except (BrokenPipeError, ValueError, OSError):
                pass

        threading.Thread(target=feeder, daemon=True).start()
        died = False
        while i < len(cases):
            # expect "#BEGIN" then a result line for case i
            try:
                line = q.get(timeout=per_case_timeout)
            except queue.Empty:
                proc.kill()
                out[cases[i]["id"]] = {"id": cases[i]["id"], "status": "hang", "stdout": "", "stderr": "",
                                       "events": [], "code": -1}
                i += 1
                died = True
                break
            if line is None:
                rc = proc.wait()
                out[cases[i]["id"]] = {"id": cases[i]["id"], "status": "crash", "signal": -rc if rc < 0 else rc,
                                       "stdout": "", "stderr": "".join(errbuf[-5:]), "events": [], "code": -1}
                i += 1
                died = True
                break
            if line.startswith("#BEGIN"):
                continue
            try:
                r = json.loads(line)
            except json.JSONDecodeError:
                continue
            out[cases[i]["id"]] = r
            i += 1
        if not died:
            proc.wait()
            break


def run_batch(binary, cases, subcmd="run-batch", per_case_timeout=20, jobs=None, env=None):
    """Run cases (dicts with unique 'id'); returns {id: result}."""
    jobs = jobs or min(NCPU, max(1, len(cases) // 20 + 1))
    out = {}
    chunks = [cases[k::jobs] for k in range(jobs)]
    ths = []
    for ch in chunks:
        if not ch:
            continue
        t = threading.Thread(target=_run_chunk, args=(binary, subcmd, ch, per_case_timeout, out, env))
        t.start()
        ths.append(t)
    for t in ths:
        t.join()
    return out


# ----------------------------------------------------------------------------------------------
# TLC

def tlc(spec, cfg=None, env=None, workers=1, timeout=1800, extra=(), deque=False, simulate=None, xss=True,
        heap="4g", metaname=None, coverage=False):
    """Run TLC on SPEC/<spec>.tla. Returns dict(out, states, distinct, ok, errors, wall)."""
    os.makedirs(WORK, exist_ok=True)
    metaname = metaname or (spec + "_" + str(os.getpid()) + "_" + str(int(time.time() * 1000) % 100000))
    meta = os.path.join(WORK, "meta_" + metaname)
    shutil.rmtree(meta, ignore_errors=True)
    cmd = ["java", "-XX:+UseParallelGC", f"-Xmx{heap}"]
    if xss:
        cmd += ["-Xss512m"]
    if deque:
        cmd += ["-Dtlc2.tool.queue.IStateQueue=StateDeque"]
    cmd += ["-cp", "/opt/veriftools/tla/tla2tools.jar:/opt/veriftools/tla/CommunityModules-deps.jar", "tlc2.TLC",
            "-workers", str(workers), "-metadir", meta, "-cleanup", "-noGenerateSpecTE", "-nowarning"]
    if coverage:
        cmd += ["-coverage", "1"]
    if simulate:
        cmd += ["-simulate", simulate]
    cmd += list(extra)
    cmd += ["-config", (cfg or spec) + ".cfg", spec + ".tla"]
    e = dict(os.environ)
    e.pop("JAVA_TOOL_OPTIONS", None)
    if env:
        e.update(env)
    t0 = time.time()
    try:
        p = subprocess.run(cmd, cwd=SPEC, env=e, stdout=subprocess.PIPE, stderr=subprocess.STDOUT, text=True,
                           timeout=timeout)
        out = p.stdout
        rc = p.returncode
    except subprocess.TimeoutExpired as ex:
        out = (ex.stdout or b"").decode("utf-8", "replace") if isinstance(ex.stdout, bytes) else (ex.stdout or "")
        rc = -9
    shutil.rmtree(meta, ignore_errors=True)
    wall = time.time() - t0
    states = distinct = 0
    m = re.findall(r"(\d+) states generated, (\d+) distinct states found", out)
    if m:
        states, distinct = int(m[-1][0]), int(m[-1][1])
    errors = [l for l in out.splitlines() if l.startswith("Error:") or "Exception" in l]
    return {"out": out, "rc": rc, "states": states, "distinct": distinct, "errors": errors, "wall": wall,
            "timeout": rc == -9}


def tlc_json(out, tag):
    """Extract records printed as PrintT("TAG " \\o ToJson(rec)): one JSON document per line."""
    res = []
    pre = '"' + tag + ' '
    for line in out.splitlines():
        line = line.strip()
        if line.startswith(pre) and line.endswith('"'):
            try:
                text = json.loads(line)
            except json.JSONDecodeError:
                text = line[1:-1].replace('\\"', '"').replace('\\\\', '\\')
            res.append(json.loads(text[len(tag) + 1:]))
    return res


def tlc_tuples(out, tag):
    """Extract PrintT'd tuples <<"TAG", ...>> from TLC output; returns list of raw inner strings."""
    res = []
    for line in out.splitlines():
        line = line.strip()
        if line.startswith('<<"' + tag + '"'):
            res.append(line)
    return res


def parse_tla_tuple(s):
    """Parse a flat TLA+ tuple of strings / ints printed by TLC: <<"A", 1, "b">> -> ['A', 1, 'b']."""
    s = s.strip()
    assert s.startswith("<<") and s.endswith(">>"), s
    body = s[2:-2]
    items, cur, i, instr = [], "", 0, False
    while i < len(body):
        ch = body[i]
        if instr:
            if ch == "\\" and i + 1 < len(body):
                cur += body[i + 1]
                i += 2
                continue
            if ch == '"':
                instr = False
                items.append(("s", cur))
                cur = ""
            else:
                cur += ch
        else:
            if ch == '"':
                instr = True
                cur = ""
            elif ch == ",":
                if cur.strip():
                    items.append(("n", cur.strip()))
                cur = ""
            else:
                cur += ch
        i += 1
    if cur.strip():
        items.append(("n", cur.strip()))
    out = []
    for k, v in items:
        if k == "s":
            out.append(v)
        else:
            try:
                out.append(int(v))
            except ValueError:
                out.append(v)
    return out


# ----------------------------------------------------------------------------------------------
# known findings

def known_findings():
    p = os.path.join(VERIF, "known_findings.json")
    if not os.path.exists(p):
        return {"findings": [], "fixed": []}
    return json.load(open(p))


# ----------------------------------------------------------------------------------------------
# evidence + verdict

class Verdict:
    def __init__(self, pid, tier, level="model_checking"):
        self.pid = pid
        self.tier = tier
        self.level = level
        self.t0 = time.time()
        self.violations = []      # (what, replay_path)
        self.known = {}           # finding id -> [witness...]
        self.cov = {"evaluations": 0, "distinct_nontrivial": 0, "rule": "", "samples": [], "states": 0,
                    "transitions": 0, "traces_validated_against_impl": 0}
        self.assumptions = []
        self.notes = {}

    def violation(self, what, replay_obj):
        os.makedirs(REPLAY, exist_ok=True)
        h = hashlib.sha1(json.dumps(replay_obj, sort_keys=True).encode()).hexdigest()[:10]
        path = os.path.join(REPLAY, f"{self.pid}_{h}.json")
        with open(path, "w") as f:
            json.dump({"property": self.pid, "what": what, "replay": replay_obj}, f, indent=1)
        self.violations.append((what, path))

    def known_finding(self, fid, witness):
        self.known.setdefault(fid, []).append(witness)

    def finish(self):
        wall = time.time() - self.t0
        cov = dict(self.cov)
        cov.update(self.notes)
        cov["known_findings_seen"] = {k: len(v) for k, v in self.known.items()}
        if not cov["samples"]:
            cov["samples"] = ["(none)"]
        cov["samples"] = cov["samples"][:8]
        ev = {"property_id": self.pid, "tier": self.tier, "seed": seed(), "level": self.level, "coverage": cov,
              "assumptions": self.assumptions, "wall_s": round(wall, 2), "violations": len(self.violations)}
        os.makedirs(EVID, exist_ok=True)
        with open(os.path.join(EVID, f"{self.pid}.json"), "w") as f:
            json.dump(ev, f, indent=1)
        kf = known_findings()
        listed = {x["id"]: x for x in kf.get("findings", [])}
        for fid, ws in sorted(self.known.items()):
            desc = listed.get(fid, {}).get("what", "")
            print(f"KNOWN-FINDING: property={self.pid} {fid} {desc} (witnesses this run: {len(ws)})")
        for what, path in self.violations[:20]:
            print(f"VIOLATION property={self.pid} replay={path}")
            log("  ", what)
        sys.stdout.flush()
        return 1 if self.violations else 0


def drop_trace(path, name):
    """remove a trace file after validation; with VERIF_KEEP_TRACES=1 keep a copy under work/keep/<name>.ndjson
    (input of tools/selftest_binding.py)"""
    if os.environ.get("VERIF_KEEP_TRACES"):
        os.makedirs(os.path.join(WORK, "keep"), exist_ok=True)
        shutil.copy(path, os.path.join(WORK, "keep", name + ".ndjson"))
    os.remove(path)
