"""Mode G plumbing: predict behaviours with TLC (Lang.tla), run the same programs on the VM, compare."""
import json, os, re
import vlib, lang


def predict(cases, v=None, workers=None, chunk=4000, spec="Lang"):
    """cases: [{id, nodes, root}] -> {id: {out:[lines], st, steps, err}}"""
    os.makedirs(vlib.WORK, exist_ok=True)
    preds = {}
    # chunks of at most `chunk` programs and about 60 MB of node tables (TLC holds the whole chunk as one value)
    lines = [json.dumps({"id": c["id"], "nodes": c["nodes"], "root": c["root"], "names": c.get("names", {"script": [115]}), "mods": c.get("mods") or {"$none": 0}})
             for c in cases]
    chunks, cur, size = [], [], 0
    for ln in lines:
        if cur and (len(cur) >= chunk or size + len(ln) > 60_000_000):
            chunks.append(cur)
            cur, size = [], 0
        cur.append(ln)
        size += len(ln)
    if cur:
        chunks.append(cur)
    for k, part in enumerate(chunks):
        path = os.path.join(vlib.WORK, f"progs_{os.getpid()}_{k}.ndjson")
        with open(path, "w") as f:
            for ln in part:
                f.write(ln + "\n")
        r = vlib.tlc(spec, spec, env={"PROGS": path}, workers=workers or min(vlib.NCPU, 12), timeout=3300, heap="24g")
        os.remove(path)
        if r["distinct"] == 0 or r["timeout"] or any(e.startswith("Error:") for e in r["errors"]):
            raise vlib.ToolError("TLC (Lang) failed:\n" + r["out"][-3000:])
        if v is not None:
            v.cov["states"] += r["distinct"]
            v.cov["transitions"] += r["states"]
        for rec in vlib.tlc_json(r["out"], "CASE"):
            rec["out"] = lang.decode_out(rec["out"])
            preds[rec["id"]] = rec
    return preds


OPAQUE = re.compile(r"<[^<>]*0x[0-9a-f]+[^<>]*>|<[A-Za-z]+ Pointer \{[^}]*\}>")


def line_matches(pred, obs):
    if pred == obs:
        return True
    if "<?>" in pred or "\x00" in pred:
        pat = re.escape(pred).replace(re.escape("<?>"), r"<[^\n]*?>").replace(re.escape("\x00"), r"[^\n]*")
        return re.fullmatch(pat, obs) is not None
    return False


# how a compile diagnostic starts on stderr: learnt from the VM by learn_diag_mark, not assumed
DIAG_MARK = ["error:"]


def learn_diag_mark(binary):
    r = vlib.run_batch(binary, [{"id": "probe", "files": {"main.lay": "let = ;\n"}}], per_case_timeout=30)["probe"]
    err = r.get("stderr", "").lstrip()
    if r.get("status") == "compile_error" and err and err.split(None, 1)[0]:
        DIAG_MARK[0] = err.split(None, 1)[0]


def observed_status(r):
    """VM result -> comparable status string"""
    if r["status"] == "ok":
        return "ok"
    if r["status"] == "runtime_error":
        lines = [l for l in r.get("stderr", "").splitlines() if l.strip()]
        if not lines:
            return f"exit:{r.get('code', 1)}"
        if lines[0].startswith(DIAG_MARK[0]):
            return "import-compile-error" if r.get("code", 0) != 0 else "import-compile-error-but-status-0"
        if lines and lines[-1].startswith("Fatal error deadlock"):
            return "deadlock"
        if lines and ":" in lines[-1]:
            return "err:" + lines[-1].split(":", 1)[0].strip()
        if r.get("code", 1) not in (0, 1):
            return f"exit:{r['code']}"
        return "err:?"
    if r["status"] == "compile_error":
        return "compile_error"
    return r["status"]      # panic / crash / hang


def compare(pred, r):
    """returns None if the VM run matches the prediction, else a short description"""
    st = observed_status(r)
    obs_lines = r.get("stdout", "").split("\n")
    if obs_lines and obs_lines[-1] == "":
        obs_lines = obs_lines[:-1]
    want = pred["out"]
    for i in range(max(len(want), len(obs_lines))):
        a = want[i] if i < len(want) else None
        b = obs_lines[i] if i < len(obs_lines) else None
        if a is None or b is None or not line_matches(a, b):
            return f"stdout line {i + 1}: predicted {a!r} observed {b!r} (status predicted {pred['st']} observed {st})"
    pst = "ok" if pred["st"] == "exit:0" else pred["st"]
    if pst != st:
        return f"status: predicted {pred['st']} observed {st}; stderr tail: {r.get('stderr', '')[-200:]!r} {r.get('panic', '')}"
    return None


BT = re.compile(r"@(\d+):([A-Za-z0-9_]+|\?|\[\]=?)")


def frame_text(node, fn, line_of, path):
    if node == 0:
        return f"native:0 in {fn}()"
    return f"{path}:{line_of.get(node, '?')} in " + ("script" if fn == "script" else fn + "()")


def resolve_backtraces(lines, line_of, path="/v/main.lay"):
    """replace the model's back trace placeholders "@<node>:<fn>" by the text the VM prints"""
    def rep(m):
        return frame_text(int(m.group(1)), m.group(2), line_of, path)
    return [BT.sub(rep, l) for l in lines]


def compare_traceback(pred, r, line_of, path="/v/main.lay"):
    """uncaught error: the traceback on stderr must list the predicted activations, innermost first"""
    if not pred["st"].startswith("err:"):
        return None
    err = [l for l in r.get("stderr", "").splitlines() if l.strip()]
    if not err or not err[0].startswith("Traceback"):
        return f"no traceback on stderr: {err[:3]}"
    frames = [l.strip() for l in err[1:-1]]
    want = [frame_text(a["n"], a["f"], line_of, path) for a in pred["tb"]]
    if frames != want:
        return f"traceback frames: predicted {want} observed {frames}"
    return None
