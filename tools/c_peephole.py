"""C12: the peephole optimiser never changes what a function does.

Windows over the instruction alphabet the rules mention are fed to the REAL optimiser through the
hook laythe_vm::verif::peephole; every (input, output) pair, plus every function of the fixture corpus
before/after the pass, is judged by TLC with Peephole.tla: Equiv (symbolic stack machine) and LinesOK are
the contract, the cursor-machine transcription of peephole_optimize is the as-is model."""
import glob, itertools, json, os, random
import vlib

# units: instruction groups the compiler always emits together
UNITS = [
    [["Drop"]],
    [["GetLocal", 1]], [["GetLocal", 2]], [["SetLocal", 1]], [["SetLocal", 2]],
    [["GetBox", 1]], [["SetBox", 1]], [["GetBox", 2]],
    [["GetCapture", 1]], [["SetCapture", 1]], [["GetCapture", 2]],
    [["GetModSym", 1]], [["SetModSym", 1]], [["GetModSym", 2]],
    [["GetPropByName", 1], ["PropertySlot"]],
    [["SetPropByName", 1], ["PropertySlot"]],
    [["Call", 0]],
    [["ArgumentDelimiter"], ["Call", 1]],
    [["GetSuper", 1]],
    [["Invoke", 2, 0], ["InvokeSlot"]],
    [["Nil"]], [["Constant", 1]], [["Add"]], [["Not"]], [["Dup"]],
    [["Jump", 0]], [["JumpIfFalse", 0]], [["Loop", 1]], [["And", 0]],
    [["Return"]], [["Raise"]],
    [["Label", 0]], [["Label", 1]],
]


def rec(ins):
    if ins[0] == "PushHandler":
        # the depth operand is filled in by the later stack-effect pass (judged by C06), not by the optimiser
        return {"op": "PushHandler", "a": ins[2], "b": 0}
    return {"op": ins[0], "a": ins[1] if len(ins) > 1 and isinstance(ins[1], int) else 0,
            "b": ins[2] if len(ins) > 2 and isinstance(ins[2], int) else 0}


def well_formed(code):
    labels = [i[1] for i in code if i[0] == "Label"]
    return len(labels) == len(set(labels))


def windows(maxlen, sample=None, rnd=None):
    out = []
    for n in range(1, maxlen + 1):
        combos = itertools.product(range(len(UNITS)), repeat=n)
        if sample is not None and len(UNITS) ** n > sample:
            combos = (tuple(rnd.randrange(len(UNITS)) for _ in range(n)) for _ in range(sample))
        for combo in combos:
            code = [ins for u in combo for ins in UNITS[u]]
            if well_formed(code):
                out.append(code)
    return out


def drop_runs():
    out = []
    for n in (2, 3, 254, 255, 256, 257):
        out.append([["Nil"]] + [["Drop"]] * n + [["Return"]])
    return out


def corpus_functions(binary, limit_len=220, max_files=None, rnd=None):
    files = sorted(glob.glob("/repo/laythe_vm/fixture/language/**/*.lay", recursive=True)) + \
        sorted(glob.glob("/repo/laythe_vm/fixture/std_lib/**/*.lay", recursive=True))
    if max_files and len(files) > max_files:
        files = rnd.sample(files, max_files)
    cases = [{"id": "file:" + os.path.relpath(f, "/repo/laythe_vm/fixture"), "src": open(f).read(), "sym": True}
             for f in files]
    import gen
    n_gen = 300 if max_files else 6000
    cases += [{"id": gid, "src": src, "sym": True} for gid, src in gen.family_sources(rnd or random.Random(vlib.seed()), n_gen)]
    res = vlib.run_batch(binary, cases, subcmd="dump", per_case_timeout=30)
    pairs = []
    for c in cases:
        r = res.get(c["id"])
        if not r or r.get("status") != "ok":
            continue
        for k, fn in enumerate(r.get("sym", [])):
            if len(fn["before"]) > limit_len:
                continue
            pairs.append({"id": f"{c['id']}#{k}:{fn['name']}", "in": fn["before"], "inl": fn["before_lines"],
                          "out": fn["after"], "outl": fn["after_lines"], "distinct_lines": False})
    return pairs


def run(pid, tier, replay=None):
    v = vlib.Verdict(pid, tier)
    rnd = random.Random(vlib.seed())
    binary = vlib.build_harness()
    v.cov["rule"] = ("windows = all sequences of length <= L over 33 instruction units (the shapes the rewrite rules "
                     "mention, two slot values, two labels, neutral pushes/pops, transfers), fed to the real optimiser; "
                     "plus every function of the language/std_lib fixtures before/after the pass; non-trivial = the "
                     "optimiser changed the sequence; distinct by input sequence")
    if replay:
        pr = json.load(open(replay))["replay"]["pair"]
        pairs = [pr]
    else:
        def dedupe(ws):
            seen, wl = set(), []
            for w in ws:
                k = json.dumps(w)
                if k not in seen:
                    seen.add(k)
                    wl.append(w)
            return wl
        if tier == "quick":
            ws = windows(3)
            v.notes["window_bound"] = "exhaustive length<=3"
            v.cov["exhaustive"] = True
        else:
            ws = dedupe(windows(3) + windows(4, sample=400000, rnd=rnd)[len(windows(3)):]
                        + windows(5, sample=100000, rnd=rnd)[-100000:])
            v.notes["window_bound"] = "exhaustive length<=3, 400000 sampled of length 4, 100000 sampled of length 5"
        ws += drop_runs()
        cases = [{"id": f"w{i}", "code": w} for i, w in enumerate(ws)]
        res = vlib.run_batch(binary, cases, subcmd="peephole", per_case_timeout=30, jobs=8)
        pairs = []
        for c in cases:
            r = res.get(c["id"])
            if r is None:
                raise vlib.ToolError("no result for window " + c["id"])
            if r.get("status") == "panic":
                # u8 counter overflow at >= 256 Drops is outside the quantifier (DESIGN C12); anything else is not
                ndrops = sum(1 for i in c["code"] if i[0] == "Drop")
                if ndrops >= 256 and "overflow" in r.get("panic", ""):
                    v.notes.setdefault("outside_quantifier", []).append(f"{ndrops} consecutive Drops: {r['panic']}")
                    continue
                v.violation("optimiser panicked: " + r.get("panic", ""), {"pair": {"id": c["id"], "in": c["code"]}})
                continue
            pairs.append({"id": c["id"], "in": r["in"], "inl": r["in_lines"], "out": r["out"], "outl": r["out_lines"],
                          "distinct_lines": True})
        pairs += corpus_functions(binary, max_files=120 if tier == "quick" else None, rnd=rnd)

    os.makedirs(vlib.WORK, exist_ok=True)
    reports = []
    CH = 150000
    for k in range(0, len(pairs), CH):
        path = os.path.join(vlib.WORK, f"pairs_{os.getpid()}_{k}.ndjson")
        with open(path, "w") as f:
            for p in pairs[k:k + CH]:
                f.write(json.dumps({"id": p["id"], "in": [rec(i) for i in p["in"]], "inl": p["inl"],
                                    "out": [rec(i) for i in p["out"]], "outl": p["outl"]}) + "\n")
        r = vlib.tlc("MC_Peephole", "MC_Peephole", env={"PAIRS": path}, workers=min(vlib.NCPU, 12), timeout=3300, heap="24g")
        os.remove(path)
        if r["distinct"] == 0 or r["timeout"] or any("Error:" in e for e in r["errors"]):
            raise vlib.ToolError("TLC judge failed:\n" + r["out"][-2500:])
        v.cov["states"] += r["distinct"]
        v.cov["transitions"] += r["states"]
        reports += vlib.tlc_json(r["out"], "PAIR")
    v.cov["evaluations"] = len(pairs)
    v.cov["distinct_nontrivial"] = sum(1 for p in pairs if p["in"] != p["out"])
    v.cov["traces_validated_against_impl"] = len(pairs)
    drift = []
    byid = {p["id"]: p for p in pairs}
    for rep in reports:
        p = byid[rep["id"]]
        kind = rep["kind"]
        if kind == "drift":
            drift.append(rep["id"])
        elif kind == "outside-quantifier":
            v.notes.setdefault("outside_quantifier", []).append(rep["id"])
        elif kind == "lines" and not p.get("distinct_lines"):
            # for whole functions several instructions share a line: the line contract is only decidable when
            # input lines are distinct; check the weaker "every output line occurs in the input, in order"
            inl, outl = p["inl"], p["outl"]
            ok = len(outl) == len(p["out"]) and all(l in inl for l in outl)
            if not ok:
                v.violation(f"lines of {rep['id']} not taken from the input", {"pair": p, "kind": kind})
        elif kind in ("not-equiv", "lines"):
            v.violation((f"real optimiser output {kind} for {rep['id']}: in={p['in']} out={p['out']} "
                         f"in_lines={p['inl']} out_lines={p['outl']}")[:400], {"pair": p, "kind": kind})
        elif kind == "model-step-not-equiv":
            # the transcription itself makes a non-equivalent step: if the real output equals the model's the
            # real optimiser is wrong too (reported through not-equiv); otherwise it is a spec slip
            v.notes.setdefault("model_step_not_equiv", []).append(rep["id"])
    v.notes["model_drift"] = bool(drift)
    v.notes["model_drift_cases"] = drift[:10]
    for p in pairs[:3] + [p for p in pairs if p["in"] != p["out"]][:4]:
        v.cov["samples"].append({"id": p["id"], "in": p["in"][:30], "out": p["out"][:30], "in_lines": p["inl"][:30],
                                 "out_lines": p["outl"][:30]})
    if drift:
        vlib.log(f"[C12] model_drift: real optimiser differs from the transcription on {len(drift)} inputs, e.g. {drift[:3]}")
    return v.finish()
