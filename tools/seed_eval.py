#!/usr/bin/env python3
"""seed_eval.py <seed id> [check ids...]: apply a seeded mutant to /repo, run the given checks (default: the
property it breaks), undo, and record the outcome in seeded/<id>/eval.json."""
import json, os, subprocess, sys, time
V = os.path.dirname(os.path.dirname(os.path.abspath(__file__)))
sid = sys.argv[1]
d = os.path.join(V, "seeded", sid)
meta = json.load(open(os.path.join(d, "meta.json")))
checks = sys.argv[2:] or [meta["property"]]
tier = os.environ.get("SEED_TIER", "quick")
st = subprocess.run(["git", "-C", "/repo", "status", "--porcelain", "--untracked-files=no"], capture_output=True, text=True).stdout.strip()
if st:
    print("/repo not clean:", st); sys.exit(2)
p = subprocess.run(["git", "-C", "/repo", "apply", os.path.join(d, "patch.diff")], capture_output=True, text=True)
if p.returncode != 0:
    p = subprocess.run(["git", "-C", "/repo", "apply", "-3", os.path.join(d, "patch.diff")], capture_output=True, text=True)
    if p.returncode != 0:
        subprocess.run(["git", "-C", "/repo", "reset", "-q"])
        subprocess.run(["git", "-C", "/repo", "checkout", "HEAD", "--", "."])
        print("apply failed", p.stderr); sys.exit(2)
res = {}
try:
    for c in checks:
        t0 = time.time()
        r = subprocess.run(["./check", c, "--tier", tier], cwd=V, capture_output=True, text=True)
        viol = [l for l in r.stdout.splitlines() if l.startswith("VIOLATION")]
        res[c] = {"exit": r.returncode, "violations": len(viol), "wall_s": round(time.time() - t0, 1),
                  "first": (r.stderr.strip().splitlines() or [""])[-1][:400] if r.returncode else ""}
        print(sid, c, "exit", r.returncode, "violations", len(viol), f"{time.time()-t0:.0f}s")
        if r.returncode == 2:
            print(r.stderr[-1500:])
finally:
    subprocess.run(["git", "-C", "/repo", "reset", "-q"])
    subprocess.run(["git", "-C", "/repo", "checkout", "HEAD", "--", "."])
    left = subprocess.run(["git", "-C", "/repo", "status", "--porcelain", "--untracked-files=no"], capture_output=True, text=True).stdout.strip()
    assert not left, "repo not restored: " + left
# the replay files written while the mutant was applied describe the mutated tree: drop them
import glob
for c in checks:
    for f in glob.glob(os.path.join(V, "evidence", "replay", c + "_*.json")):
        os.remove(f)
ev = {}
ep = os.path.join(d, "eval.json")
if os.path.exists(ep):
    ev = json.load(open(ep))
ev.update(res)
json.dump(ev, open(ep, "w"), indent=1)
