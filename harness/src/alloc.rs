//! Ledger allocator: an independent record of every block's layout, kept in a private header in front of the
//! block.  It never trusts the layout passed to `dealloc`; a release with a layout different from the one the
//! block was obtained with is counted (ground truth for C20 "every block is released with the size and
//! alignment it was obtained with").
use std::alloc::{GlobalAlloc, Layout, System};
use std::sync::atomic::{AtomicUsize, Ordering};

pub struct Ledger;

pub static MISMATCHES: AtomicUsize = AtomicUsize::new(0);
pub static FIRST_ALLOC_SIZE: AtomicUsize = AtomicUsize::new(0);
pub static FIRST_FREE_SIZE: AtomicUsize = AtomicUsize::new(0);
pub static LIVE_BYTES: AtomicUsize = AtomicUsize::new(0);

#[inline]
fn offset(align: usize) -> usize {
  if align > 16 {
    align
  } else {
    16
  }
}

unsafe impl GlobalAlloc for Ledger {
  unsafe fn alloc(&self, layout: Layout) -> *mut u8 {
    let off = offset(layout.align());
    let real = match Layout::from_size_align(layout.size() + off, off) {
      Ok(l) => l,
      Err(_) => return std::ptr::null_mut(),
    };
    let base = System.alloc(real);
    if base.is_null() {
      return base;
    }
    let user = base.add(off);
    // header: size and align right in front of the user block
    (user.sub(16) as *mut usize).write(layout.size());
    (user.sub(8) as *mut usize).write(layout.align());
    LIVE_BYTES.fetch_add(layout.size(), Ordering::Relaxed);
    user
  }

  unsafe fn dealloc(&self, ptr: *mut u8, layout: Layout) {
    let size = (ptr.sub(16) as *const usize).read();
    let align = (ptr.sub(8) as *const usize).read();
    if size != layout.size() || align != layout.align() {
      if MISMATCHES.fetch_add(1, Ordering::Relaxed) == 0 {
        FIRST_ALLOC_SIZE.store(size, Ordering::Relaxed);
        FIRST_FREE_SIZE.store(layout.size(), Ordering::Relaxed);
      }
    }
    LIVE_BYTES.fetch_sub(size, Ordering::Relaxed);
    let off = offset(align);
    let real = Layout::from_size_align_unchecked(size + off, off);
    System.dealloc(ptr.sub(off), real);
  }
}

pub fn reset() {
  MISMATCHES.store(0, Ordering::Relaxed);
  FIRST_ALLOC_SIZE.store(0, Ordering::Relaxed);
  FIRST_FREE_SIZE.store(0, Ordering::Relaxed);
}

pub fn report() -> (usize, usize, usize) {
  (
    MISMATCHES.load(Ordering::Relaxed),
    FIRST_ALLOC_SIZE.load(Ordering::Relaxed),
    FIRST_FREE_SIZE.load(Ordering::Relaxed),
  )
}
