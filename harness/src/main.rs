//! lvh — the verification harness binary. Sub commands read NDJSON on stdin (or a file) and
//! write NDJSON on stdout, one record per case; `BEGIN <id>` markers go to stderr-free stdout
//! lines prefixed with '#' so that the python driver can attribute a crash to a case.
mod alloc;
mod io;
mod sym;

#[global_allocator]
static GLOBAL: alloc::Ledger = alloc::Ledger;

use laythe_core::verif;
use laythe_vm::vm::{Vm, VmExit};
use serde_json::{json, Value as J};
use std::{
  io::{BufRead, Write},
  panic,
  path::PathBuf,
  sync::{Arc, Mutex},
};

fn cfg_from(case: &J) -> verif::Config {
  let classes = case["classes"]
    .as_array()
    .map(|a| a.iter().filter_map(|c| c.as_str().map(|s| s.to_string())).collect())
    .unwrap_or_default();
  let gc = &case["gc"];
  verif::Config {
    classes,
    max_events: case["max_events"].as_u64().unwrap_or(200_000) as usize,
    gc: verif::GcSchedule {
      every: gc["every"].as_u64().unwrap_or(0),
      at: gc["at"]
        .as_array()
        .map(|a| a.iter().filter_map(|c| c.as_u64()).collect())
        .unwrap_or_default(),
      force_full: gc["force_full"].as_bool().unwrap_or(false),
      next_gc: gc["next_gc"].as_u64().map(|n| n as usize),
    },
    force_miss: case["force_miss"].as_bool().unwrap_or(false),
  }
}

thread_local! {
  static PANIC_MSG: std::cell::RefCell<Option<String>> = const { std::cell::RefCell::new(None) };
}

fn run_case(case: &J) -> J {
  let shared: io::SharedRef = Arc::new(Mutex::new(io::Shared::default()));
  {
    let mut s = shared.lock().unwrap();
    if let Some(files) = case["files"].as_object() {
      for (name, src) in files {
        s.files
          .insert(PathBuf::from("/v").join(name), src.as_str().unwrap_or("").to_string());
      }
    }
    if let Some(lines) = case["repl"].as_array() {
      s.lines = lines
        .iter()
        .map(|l| {
          let mut l = l.as_str().unwrap_or("").to_string();
          if !l.ends_with('\n') {
            l.push('\n');
          }
          l
        })
        .collect();
    }
  }
  let main = case["main"].as_str().unwrap_or("main.lay").to_string();
  let is_repl = case["repl"].is_array();
  let cfg = cfg_from(case);
  let hio = io::make_io(&shared);
  let main_src = shared
    .lock()
    .unwrap()
    .files
    .get(&PathBuf::from("/v").join(&main))
    .cloned()
    .unwrap_or_default();

  PANIC_MSG.with(|p| *p.borrow_mut() = None);
  let early = case["early"].as_bool().unwrap_or(false);
  alloc::reset();
  let result = panic::catch_unwind(panic::AssertUnwindSafe(|| {
    let mut cfg = Some(cfg);
    if early {
      verif::start(cfg.take().unwrap());
    }
    let mut vm = Vm::new(hio);
    if let Some(cfg) = cfg.take() {
      verif::start(cfg);
    }
    let r = if is_repl {
      vm.repl()
    } else {
      vm.run(PathBuf::from("/v").join(&main), &main_src)
    };
    let (events, dropped) = verif::stop();
    let post = if case["post_collect"].as_bool().unwrap_or(false) {
      Some(vm.verif_post_stats())
    } else {
      None
    };
    drop(vm);
    (r, events, dropped, post)
  }));

  let s = shared.lock().unwrap();
  let stdout = String::from_utf8_lossy(&s.stdout).to_string();
  let stderr = String::from_utf8_lossy(&s.stderr).to_string();
  match result {
    Ok(((code, exit), events, dropped, post)) => {
      let (mism, first_alloc, first_free) = alloc::report();
      let status = match exit {
        VmExit::Ok => "ok",
        VmExit::RuntimeError => "runtime_error",
        VmExit::CompileError => "compile_error",
      };
      let events: Vec<J> = events
        .iter()
        .map(|e| serde_json::from_str(e).unwrap_or_else(|_| json!({"ev":"bad","raw":e})))
        .collect();
      json!({"id": case["id"], "status": status, "code": code, "stdout": stdout, "stderr": stderr,
             "events": events, "dropped": dropped, "post": post, "reads": s.reads,
             "layout_mismatches": mism, "first_mismatch": [first_alloc, first_free]})
    },
    Err(_) => {
      let (events, dropped) = verif::stop();
      let events: Vec<J> = events
        .iter()
        .map(|e| serde_json::from_str(e).unwrap_or_else(|_| json!({"ev":"bad","raw":e})))
        .collect();
      let msg = PANIC_MSG.with(|p| p.borrow_mut().take()).unwrap_or_default();
      json!({"id": case["id"], "status": "panic", "code": 101, "stdout": stdout, "stderr": stderr,
             "panic": msg, "events": events, "dropped": dropped, "reads": s.reads})
    },
  }
}

fn run_batch() {
  let stdin = std::io::stdin();
  let stdout = std::io::stdout();
  for line in stdin.lock().lines() {
    let line = line.expect("read");
    if line.trim().is_empty() {
      continue;
    }
    let case: J = serde_json::from_str(&line).expect("case json");
    {
      let mut o = stdout.lock();
      writeln!(o, "#BEGIN {}", case["id"]).unwrap();
      o.flush().unwrap();
    }
    let stack = case["stack_mb"].as_u64().unwrap_or(8) as usize * 1024 * 1024;
    let c2 = case.clone();
    let handle = std::thread::Builder::new()
      .stack_size(stack)
      .spawn(move || run_case(&c2))
      .expect("spawn");
    let out = match handle.join() {
      Ok(j) => j,
      Err(_) => json!({"id": case["id"], "status": "panic", "panic": "thread join failed"}),
    };
    let mut o = stdout.lock();
    writeln!(o, "{}", serde_json::to_string(&out).unwrap()).unwrap();
    o.flush().unwrap();
  }
}

fn main() {
  panic::set_hook(Box::new(|info| {
    let msg = if let Some(s) = info.payload().downcast_ref::<&str>() {
      s.to_string()
    } else if let Some(s) = info.payload().downcast_ref::<String>() {
      s.clone()
    } else {
      "?".to_string()
    };
    let loc = info
      .location()
      .map(|l| format!("{}:{}", l.file(), l.line()))
      .unwrap_or_default();
    PANIC_MSG.with(|p| {
      let mut p = p.borrow_mut();
      if p.is_none() {
        *p = Some(format!("{msg} @ {loc}"));
      }
    });
  }));
  let args: Vec<String> = std::env::args().collect();
  match args.get(1).map(|s| s.as_str()) {
    Some("run-batch") => run_batch(),
    Some("dump") => laythe_dump(),
    Some("peephole") => peephole_batch(),
    Some("natives") => natives_dump(),
    _ => {
      eprintln!("usage: lvh run-batch|dump|peephole|natives  < cases.ndjson");
      std::process::exit(2);
    },
  }
}

fn laythe_dump() {
  let stdin = std::io::stdin();
  let stdout = std::io::stdout();
  for line in stdin.lock().lines() {
    let line = line.expect("read");
    if line.trim().is_empty() {
      continue;
    }
    let case: J = serde_json::from_str(&line).expect("case json");
    {
      let mut o = stdout.lock();
      writeln!(o, "#BEGIN {}", case["id"]).unwrap();
      o.flush().unwrap();
    }
    let src = case["src"].as_str().unwrap_or("").to_string();
    let repl = case["repl"].as_bool().unwrap_or(false);
    PANIC_MSG.with(|p| *p.borrow_mut() = None);
    let want_sym = case["sym"].as_bool().unwrap_or(false);
    if want_sym {
      laythe_vm::verif::peephole_log_start();
    }
    let r = panic::catch_unwind(|| laythe_vm::verif::compile_dump(&src, repl));
    let log = laythe_vm::verif::peephole_log_take();
    let out = match r {
      Ok(Ok(dump)) => {
        let d: J = serde_json::from_str(&dump).unwrap_or_else(|e| json!({"bad": e.to_string()}));
        let sym: Vec<J> = log
          .iter()
          .map(|r| {
            json!({"name": r.name, "max_slots": r.max_slots,
              "before": r.before.iter().map(sym::to_json).collect::<Vec<_>>(), "before_lines": r.before_lines,
              "after": r.after.iter().map(sym::to_json).collect::<Vec<_>>(), "after_lines": r.after_lines})
          })
          .collect();
        json!({"id": case["id"], "status": "ok", "dump": d, "sym": sym})
      },
      Ok(Err(n)) => json!({"id": case["id"], "status": "compile_error", "diags": n}),
      Err(_) => {
        let msg = PANIC_MSG.with(|p| p.borrow_mut().take()).unwrap_or_default();
        json!({"id": case["id"], "status": "panic", "panic": msg})
      },
    };
    let mut o = stdout.lock();
    writeln!(o, "{}", serde_json::to_string(&out).unwrap()).unwrap();
    o.flush().unwrap();
  }
}

fn peephole_one(case: &J) -> J {
  let code: Vec<_> = case["code"]
    .as_array()
    .map(|a| a.iter().filter_map(sym::from_json).collect())
    .unwrap_or_default();
  let lines: Vec<u16> = case["lines"]
    .as_array()
    .map(|a| a.iter().filter_map(|l| l.as_u64().map(|l| l as u16)).collect())
    .unwrap_or_default();
  let lines = if lines.len() == code.len() {
    lines
  } else {
    (1..=code.len() as u16).collect()
  };
  let effects: Vec<J> = code
    .iter()
    .map(|c| {
      let (len, eff) = laythe_vm::verif::len_and_effect(c);
      json!([len, eff])
    })
    .collect();
  let (out, out_lines) = laythe_vm::verif::peephole(code.clone(), lines.clone());
  let mut res = json!({"id": case["id"], "status": "ok",
    "in": code.iter().map(sym::to_json).collect::<Vec<_>>(), "in_lines": lines,
    "out": out.iter().map(sym::to_json).collect::<Vec<_>>(), "out_lines": out_lines,
    "effects": effects});
  if case["stack"].as_bool().unwrap_or(false) {
    let (with_depth, max_slots) = laythe_vm::verif::stack_effects(out);
    res["stack"] = json!({"code": with_depth.iter().map(sym::to_json).collect::<Vec<_>>(), "max_slots": max_slots});
  }
  res
}

fn peephole_batch() {
  let stdin = std::io::stdin();
  let stdout = std::io::stdout();
  for line in stdin.lock().lines() {
    let line = line.expect("read");
    if line.trim().is_empty() {
      continue;
    }
    PANIC_MSG.with(|p| *p.borrow_mut() = None);
    let case: J = serde_json::from_str(&line).expect("case json");
    let c2 = case.clone();
    let r = panic::catch_unwind(move || peephole_one(&c2));
    let out = match r {
      Ok(j) => j,
      Err(_) => {
        let msg = PANIC_MSG.with(|p| p.borrow_mut().take()).unwrap_or_default();
        json!({"id": case["id"], "status": "panic", "panic": msg})
      },
    };
    let mut o = stdout.lock();
    writeln!(o, "{}", serde_json::to_string(&out).unwrap()).unwrap();
  }
}

fn natives_dump() {
  println!("{}", laythe_vm::verif::natives_dump());
}
