//! In-memory io for the harness: scripted stdin, captured stdout/stderr, in-memory files.
use laythe_env::{
  env::{Env, EnvImpl},
  fs::{Fs, FsImpl, LyDirEntry},
  io::{Io, IoImpl},
  stdio::{Stdio, StdioImpl},
  time::{Time, TimeImpl},
};
use std::{
  collections::HashMap,
  io::{self, Read, Write},
  path::{Path, PathBuf},
  sync::{Arc, Mutex},
  time::Duration,
};
use termcolor::{ColorSpec, WriteColor};

#[derive(Default, Debug)]
pub struct Shared {
  pub stdout: Vec<u8>,
  pub stderr: Vec<u8>,
  pub lines: Vec<String>,
  pub line_index: usize,
  pub files: HashMap<PathBuf, String>,
  pub reads: Vec<String>,
}

pub type SharedRef = Arc<Mutex<Shared>>;

struct W {
  shared: SharedRef,
  err: bool,
}

impl Write for W {
  fn write(&mut self, buf: &[u8]) -> io::Result<usize> {
    let mut s = self.shared.lock().unwrap();
    if self.err {
      s.stderr.extend_from_slice(buf);
    } else {
      s.stdout.extend_from_slice(buf);
    }
    Ok(buf.len())
  }
  fn flush(&mut self) -> io::Result<()> {
    Ok(())
  }
}

impl WriteColor for W {
  fn supports_color(&self) -> bool {
    false
  }
  fn set_color(&mut self, _: &ColorSpec) -> io::Result<()> {
    Ok(())
  }
  fn reset(&mut self) -> io::Result<()> {
    Ok(())
  }
}

struct R;
impl Read for R {
  fn read(&mut self, _buf: &mut [u8]) -> io::Result<usize> {
    Ok(0)
  }
}

struct HStdio {
  out: W,
  err: W,
  rd: R,
  shared: SharedRef,
}

impl StdioImpl for HStdio {
  fn stdout(&mut self) -> &mut dyn Write {
    &mut self.out
  }
  fn stderr(&mut self) -> &mut dyn Write {
    &mut self.err
  }
  fn stderr_color(&mut self) -> &mut dyn WriteColor {
    &mut self.err
  }
  fn stdin(&mut self) -> &mut dyn Read {
    &mut self.rd
  }
  fn read_line(&self, buffer: &mut String) -> io::Result<usize> {
    let mut s = self.shared.lock().unwrap();
    let idx = s.line_index;
    match s.lines.get(idx).cloned() {
      Some(line) => {
        buffer.push_str(&line);
        s.line_index += 1;
        Ok(line.len())
      },
      None => Ok(0),
    }
  }
}

#[derive(Debug)]
pub struct HIoStdio(pub SharedRef);
impl IoImpl<Stdio> for HIoStdio {
  fn make(&self) -> Stdio {
    Stdio::new(Box::new(HStdio {
      out: W { shared: self.0.clone(), err: false },
      err: W { shared: self.0.clone(), err: true },
      rd: R,
      shared: self.0.clone(),
    }))
  }
}

struct HFs(SharedRef);
impl FsImpl for HFs {
  fn write_file(&self, path: &Path, contents: &str) -> io::Result<()> {
    self.0.lock().unwrap().files.insert(path.to_path_buf(), contents.to_string());
    Ok(())
  }
  fn read_file(&self, path: &Path) -> io::Result<String> {
    let mut s = self.0.lock().unwrap();
    s.reads.push(path.to_string_lossy().to_string());
    match s.files.get(path) {
      Some(c) => Ok(c.clone()),
      None => Err(io::Error::new(io::ErrorKind::NotFound, "no such file")),
    }
  }
  fn remove_file(&self, path: &Path) -> io::Result<()> {
    self.0.lock().unwrap().files.remove(path);
    Ok(())
  }
  fn read_directory(&self, _path: &Path) -> io::Result<Vec<Box<dyn LyDirEntry>>> {
    Ok(vec![])
  }
  fn canonicalize(&self, path: &Path) -> io::Result<PathBuf> {
    Ok(path.to_path_buf())
  }
  fn relative_path(&self, _base: &Path, import: &Path) -> io::Result<PathBuf> {
    Ok(import.to_path_buf())
  }
}

#[derive(Debug)]
pub struct HIoFs(pub SharedRef);
impl IoImpl<Fs> for HIoFs {
  fn make(&self) -> Fs {
    Fs::new(Box::new(HFs(self.0.clone())))
  }
}

struct HEnv;
impl EnvImpl for HEnv {
  fn current_dir(&self) -> io::Result<PathBuf> {
    Ok(PathBuf::from("/v"))
  }
  fn args(&self) -> Vec<String> {
    vec![]
  }
}
#[derive(Debug)]
pub struct HIoEnv;
impl IoImpl<Env> for HIoEnv {
  fn make(&self) -> Env {
    Env::new(Box::new(HEnv))
  }
}

struct HTime;
impl TimeImpl for HTime {
  fn elapsed(&self) -> Result<Duration, String> {
    Ok(Duration::new(1, 0))
  }
}
#[derive(Debug)]
pub struct HIoTime;
impl IoImpl<Time> for HIoTime {
  fn make(&self) -> Time {
    Time::new(Box::new(HTime))
  }
}

pub fn make_io(shared: &SharedRef) -> Io {
  Io::new(
    Arc::new(HIoStdio(shared.clone())),
    Arc::new(HIoFs(shared.clone())),
    Arc::new(HIoEnv),
    Arc::new(HIoTime),
  )
}
